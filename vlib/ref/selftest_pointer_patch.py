"""Self-test of vlib/ref/pointer_patch_ref.py: every example of RFC 6901 section 5 and RFC 6902 Appendix A (A.1-A.16),
plus the grammar corner cases the monitors rely on. Exit status 0 = all passed.
Run:  python3 -m vlib.ref.selftest_pointer_patch   (from /verif)"""
import json, sys, os

if __package__ in (None, ""):
    sys.path.insert(0, os.path.dirname(os.path.dirname(os.path.dirname(os.path.abspath(__file__)))))
    from vlib.ref import pointer_patch_ref as R
else:
    from . import pointer_patch_ref as R

FAILS = []


def check(name, cond):
    if not cond:
        FAILS.append(name)
        print("FAIL", name)


def raises(fn, exc, kind=None):
    try:
        fn()
    except exc as e:
        return kind is None or e.kind == kind
    except Exception:
        return False
    return False


# ---------------------------------------------------------------- RFC 6901 section 5
DOC = json.loads(r'''{
  "foo": ["bar", "baz"],
  "": 0,
  "a/b": 1,
  "c%d": 2,
  "e^f": 3,
  "g|h": 4,
  "i\\j": 5,
  "k\"l": 6,
  " ": 7,
  "m~n": 8
}''')
SEC5 = [
    ('""', DOC),
    ('"/foo"', ["bar", "baz"]),
    ('"/foo/0"', "bar"),
    ('"/"', 0),
    ('"/a~1b"', 1),
    ('"/c%d"', 2),
    ('"/e^f"', 3),
    ('"/g|h"', 4),
    ('"/i\\\\j"', 5),
    ('"/k\\"l"', 6),
    ('"/ "', 7),
    ('"/m~0n"', 8),
]
for js, want in SEC5:
    p = json.loads(js)
    toks = R.parse_pointer(p)
    check("6901-5 get %s" % js, R.json_equal(R.get(DOC, toks), want))
    check("6901-5 round trip %s" % js, R.format_pointer(toks) == p)
    check("6901-5 contains %s" % js, R.contains(DOC, toks))

# grammar corner cases
check("empty pointer", R.parse_pointer("") == [])
check("single slash", R.parse_pointer("/") == [""])
check("empty tokens", R.parse_pointer("//a/") == ["", "a", ""])
check("~01 is ~1", R.parse_pointer("/~01") == ["~1"])
check("~10 is /0", R.parse_pointer("/~10") == ["/0"])
check("no leading slash", raises(lambda: R.parse_pointer("a"), R.PointerError, "syntax/no-leading-slash"))
check("~2", raises(lambda: R.parse_pointer("/a~2"), R.PointerError, "syntax/bad-escape"))
check("trailing ~", raises(lambda: R.parse_pointer("/a~"), R.PointerError, "syntax/bad-escape"))
check("~ before slash", raises(lambda: R.parse_pointer("/a~/b"), R.PointerError, "syntax/bad-escape"))
check("format escapes ~ first", R.format_pointer(["~1", "a/b", "m~n", ""]) == "/~01/a~1b/m~0n/")
A3 = [10, 20, 30]
check("index 0", R.get(A3, ["0"]) == 10)
check("index 2", R.get(A3, ["2"]) == 30)
check("index 3 out of range", raises(lambda: R.get(A3, ["3"]), R.PointerError, "index/out-of-range"))
check("index 01", raises(lambda: R.get(A3, ["01"]), R.PointerError, "index/leading-zero"))
check("index 00", raises(lambda: R.get(A3, ["00"]), R.PointerError, "index/leading-zero"))
check("index +1", raises(lambda: R.get(A3, ["+1"]), R.PointerError, "index/sign"))
check("index -1", raises(lambda: R.get(A3, ["-1"]), R.PointerError, "index/sign"))
check("index -", raises(lambda: R.get(A3, ["-"]), R.PointerError, "index/dash"))
check("index empty", raises(lambda: R.get(A3, [""]), R.PointerError, "index/empty"))
check("index 1e0", raises(lambda: R.get(A3, ["1e0"]), R.PointerError, "index/not-a-number"))
check("index arabic-indic digit", raises(lambda: R.get(A3, ["١"]), R.PointerError, "index/not-a-number"))
check("index space", raises(lambda: R.get(A3, [" 1"]), R.PointerError, "index/not-a-number"))
check("scalar parent", raises(lambda: R.get({"a": 1}, ["a", "b"]), R.PointerError, "not-a-container"))
check("object member named 01", R.get({"01": 5}, ["01"]) == 5)
check("object member named -", R.get({"-": 5}, ["-"]) == 5)
check("add insert shifts", R.add(A3, ["1"], 99) == [10, 99, 20, 30])
check("add at size appends", R.add(A3, ["3"], 99) == [10, 20, 30, 99])
check("add - appends", R.add(A3, ["-"], 99) == [10, 20, 30, 99])
check("add past size", raises(lambda: R.add(A3, ["4"], 99), R.PointerError, "index/out-of-range"))
check("add does not mutate", A3 == [10, 20, 30])
check("add overwrites member", R.add({"a": 1, "b": 2}, ["a"], 9) == {"a": 9, "b": 2})
check("add root", R.add({"a": 1}, [], 5) == 5)
check("add_if_absent keeps", raises(lambda: R.add_if_absent({"a": 1}, ["a"], 9), R.PointerError, "exists"))
check("add_if_absent root", raises(lambda: R.add_if_absent({"a": 1}, [], 9), R.PointerError, "exists"))
check("add_if_absent new", R.add_if_absent({"a": 1}, ["b"], 9) == {"a": 1, "b": 9})
check("replace missing", raises(lambda: R.replace({"a": 1}, ["b"], 9), R.PointerError, "key-not-found"))
check("replace -", raises(lambda: R.replace(A3, ["-"], 9), R.PointerError, "index/dash"))
check("replace index", R.replace(A3, ["1"], 9) == [10, 9, 30])
check("remove -", raises(lambda: R.remove(A3, ["-"]), R.PointerError, "index/dash"))
check("remove root", raises(lambda: R.remove(A3, []), R.PointerError, "root"))
check("remove shifts", R.remove(A3, ["0"]) == [20, 30])
check("create path", R.add({"a": {}}, ["a", "b", "c"], 1, create=True) == {"a": {"b": {"c": 1}}})
check("create not through arrays", raises(lambda: R.add({"a": []}, ["a", "0", "c"], 1, create=True), R.PointerError, "index/out-of-range"))
check("no create", raises(lambda: R.add({"a": {}}, ["a", "b", "c"], 1), R.PointerError, "key-not-found"))
check("json_equal bool vs int", not R.json_equal(True, 1) and not R.json_equal(0, False))
check("json_equal object order", R.json_equal({"a": 1, "b": [2]}, {"b": [2], "a": 1}))
check("ordered_equal object order", not R.ordered_equal({"a": 1, "b": 2}, {"b": 2, "a": 1}))
check("json_equal 1 vs 1.0", R.json_equal(1, 1.0))
check("json_equal string vs number", not R.json_equal("10", 10))
check("leaves", list(R.leaves({"a": [1, {}], "b": []})) == [(("a", "0"), 1), (("a", "1"), {}), (("b",), [])])

# ---------------------------------------------------------------- RFC 6902 Appendix A
OK, ERR = "ok", "err"
APPENDIX = [
    ("A.1", '{"foo":"bar"}', '[{"op":"add","path":"/baz","value":"qux"}]', OK, '{"baz":"qux","foo":"bar"}'),
    ("A.2", '{"foo":["bar","baz"]}', '[{"op":"add","path":"/foo/1","value":"qux"}]', OK, '{"foo":["bar","qux","baz"]}'),
    ("A.3", '{"baz":"qux","foo":"bar"}', '[{"op":"remove","path":"/baz"}]', OK, '{"foo":"bar"}'),
    ("A.4", '{"foo":["bar","qux","baz"]}', '[{"op":"remove","path":"/foo/1"}]', OK, '{"foo":["bar","baz"]}'),
    ("A.5", '{"baz":"qux","foo":"bar"}', '[{"op":"replace","path":"/baz","value":"boo"}]', OK, '{"baz":"boo","foo":"bar"}'),
    ("A.6", '{"foo":{"bar":"baz","waldo":"fred"},"qux":{"corge":"grault"}}', '[{"op":"move","from":"/foo/waldo","path":"/qux/thud"}]', OK,
     '{"foo":{"bar":"baz"},"qux":{"corge":"grault","thud":"fred"}}'),
    ("A.7", '{"foo":["all","grass","cows","eat"]}', '[{"op":"move","from":"/foo/1","path":"/foo/3"}]', OK, '{"foo":["all","cows","eat","grass"]}'),
    ("A.8", '{"baz":"qux","foo":["a",2,"c"]}', '[{"op":"test","path":"/baz","value":"qux"},{"op":"test","path":"/foo/1","value":2}]', OK,
     '{"baz":"qux","foo":["a",2,"c"]}'),
    ("A.9", '{"baz":"qux"}', '[{"op":"test","path":"/baz","value":"bar"}]', ERR, "test/not-equal"),
    ("A.10", '{"foo":"bar"}', '[{"op":"add","path":"/child","value":{"grandchild":{}}}]', OK, '{"foo":"bar","child":{"grandchild":{}}}'),
    ("A.11", '{"foo":"bar"}', '[{"op":"add","path":"/baz","value":"qux","xyz":123}]', OK, '{"foo":"bar","baz":"qux"}'),
    ("A.12", '{"foo":"bar"}', '[{"op":"add","path":"/baz/bat","value":"qux"}]', ERR, "add/key-not-found"),
    ("A.13", '{"foo":"bar"}', '[{"op":"add","path":"/baz","value":"qux","op":"remove"}]', ERR, "duplicate-member"),
    ("A.14", '{"/":9,"~1":10}', '[{"op":"test","path":"/~01","value":10}]', OK, '{"/":9,"~1":10}'),
    ("A.15", '{"/":9,"~1":10}', '[{"op":"test","path":"/~01","value":"10"}]', ERR, "test/not-equal"),
    ("A.16", '{"foo":["bar"]}', '[{"op":"add","path":"/foo/-","value":["abc","def"]}]', OK, '{"foo":["bar",["abc","def"]]}'),
]
for name, doc_t, patch_t, outcome, want in APPENDIX:
    doc = json.loads(doc_t)
    before = json.loads(doc_t)
    try:
        got = R.apply_patch(doc, R.load_json_unique(patch_t))
        res = (OK, got)
    except R.PatchError as e:
        res = (ERR, e.kind)
    if outcome == OK:
        check("6902 %s" % name, res[0] == OK and R.json_equal(res[1], json.loads(want)))
    else:
        check("6902 %s (%r)" % (name, res), res == (ERR, want))
    check("6902 %s input untouched" % name, R.ordered_equal(doc, before))

# further RFC 6902 rules the monitor relies on
D = {"a": {"b": [1, 2, 3]}, "c": 5}


def err(patch, kind, doc=D):
    return raises(lambda: R.apply_patch(doc, patch), R.PatchError, kind)


check("patch not array", err({"op": "add"}, "patch-not-an-array"))
check("element not object", err([5], "element-not-an-object"))
check("missing op", err([{"path": "/c"}], "missing-op"))
check("unknown op", err([{"op": "bogus", "path": "/c"}], "unknown-op"))
check("op not string", err([{"op": 5, "path": "/c"}], "op-not-a-string"))
check("missing path", err([{"op": "remove"}], "missing-path"))
check("bad path syntax", err([{"op": "remove", "path": "c"}], "path-syntax/no-leading-slash"))
check("add without value", err([{"op": "add", "path": "/x"}], "missing-value"))
check("replace without value", err([{"op": "replace", "path": "/c"}], "missing-value"))
check("test without value", err([{"op": "test", "path": "/c"}], "missing-value"))
check("move without from", err([{"op": "move", "path": "/c"}], "missing-from"))
check("copy without from", err([{"op": "copy", "path": "/c"}], "missing-from"))
check("move into own child", err([{"op": "move", "from": "/a", "path": "/a/b/0"}], "move/from-is-proper-prefix-of-path"))
check("move into own child (array sibling takes the place)", err([{"op": "move", "from": "/0", "path": "/0/x"}], "move/from-is-proper-prefix-of-path", [1, {"k": 2}]))
check("move from missing", err([{"op": "move", "from": "/zz", "path": "/c"}], "move/from/key-not-found"))
check("copy from missing", err([{"op": "copy", "from": "/a/b/3", "path": "/c"}], "copy/from/index/out-of-range"))
check("copy from -", err([{"op": "copy", "from": "/a/b/-", "path": "/c"}], "copy/from/index/dash"))
check("replace missing target", err([{"op": "replace", "path": "/zz", "value": 1}], "replace/key-not-found"))
check("remove missing target", err([{"op": "remove", "path": "/a/b/3"}], "remove/index/out-of-range"))
check("remove leading zero", err([{"op": "remove", "path": "/a/b/01"}], "remove/index/leading-zero"))
check("add index past end", err([{"op": "add", "path": "/a/b/4", "value": 0}], "add/index/out-of-range"))
check("test missing target", err([{"op": "test", "path": "/zz", "value": 1}], "test/key-not-found"))
try:
    R.apply_patch(D, [{"op": "remove", "path": "/c"}, {"op": "remove", "path": "/c"}])
    check("failing op index", False)
except R.PatchError as e:
    check("failing op index", e.index == 1 and e.kind == "remove/key-not-found")
check("add root", R.apply_patch(D, [{"op": "add", "path": "", "value": [1]}, {"op": "add", "path": "/-", "value": 2}]) == [1, 2])
check("replace root", R.apply_patch(D, [{"op": "replace", "path": "", "value": None}]) is None)
check("copy root into child", R.apply_patch({"a": 1}, [{"op": "copy", "from": "", "path": "/b"}]) == {"a": 1, "b": {"a": 1}})
check("move same location", R.json_equal(R.apply_patch(D, [{"op": "move", "from": "/a/b/1", "path": "/a/b/1"}]), D))
check("move within array", R.apply_patch([0, 1, 2, 3], [{"op": "move", "from": "/0", "path": "/3"}]) == [1, 2, 3, 0])
check("move to -", R.apply_patch([0, 1, 2, 3], [{"op": "move", "from": "/0", "path": "/-"}]) == [1, 2, 3, 0])
check("move overwrites member", R.apply_patch({"a": 1, "b": 2}, [{"op": "move", "from": "/a", "path": "/b"}]) == {"b": 1})
check("test object order irrelevant", R.json_equal(R.apply_patch(D, [{"op": "test", "path": "/a", "value": {"b": [1, 2, 3]}}]), D))
check("test true vs 1", err([{"op": "test", "path": "/c", "value": True}], "test/not-equal", {"c": 1}))
check("remove whole document unspecified", raises(lambda: R.apply_patch(D, [{"op": "remove", "path": ""}]), R.Unspecified))
check("move whole document onto itself unspecified", raises(lambda: R.apply_patch(D, [{"op": "move", "from": "", "path": ""}]), R.Unspecified))
check("move whole document into child is an error", err([{"op": "move", "from": "", "path": "/c"}], "move/from-is-proper-prefix-of-path"))
check("D untouched", D == {"a": {"b": [1, 2, 3]}, "c": 5})

if FAILS:
    print("%d self-test failures" % len(FAILS))
    sys.exit(1)
print("pointer/patch reference self-test: all passed (%d RFC 6901 sec.5 pointers, %d RFC 6902 Appendix A examples)" % (len(SEC5), len(APPENDIX)))
sys.exit(0)
