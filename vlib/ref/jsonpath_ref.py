#!/usr/bin/env python3
"""Independent reference evaluator for the CORE of the jsoncons JSONPath dialect.

Pure Python 3.11, standard library only.  Written from the prose/ABNF under
/repo/doc/ref/jsonpath/*.md and calibrated against the expectation files in
/repo/test/jsonpath/input (NOT from the C++ implementation).

Public API
----------
    class NotSupported(Exception)     expression uses something outside the core
    class PathSyntaxError(Exception)  expression is not a valid path
    parse(expr) -> AST                (nested tuples, see "AST" below)
    evaluate(expr_or_ast, doc, notes=None) -> [(normalized_path, value), ...]
    dedup(results)                    drop later results with an already seen path
    sort_by_path(results)             stable sort by path, element-wise
    normalized_path(elements) / parse_normalized_path(s)
    sort_keys(value)                  recursively re-order dict keys in UTF-8 byte order
    gen_document(rng, depth=3), gen_expression(rng, doc, depth=3)

In scope
--------
    $  @                         root / current node (@ only meaningful in filters and
                                 union sub-paths; a leading top-level @ is accepted and
                                 means the root)
    .name .'na me' ."na me"      child by name (unquoted: [A-Za-z0-9_] and any char
                                 >= U+0080; whitespace allowed around the dot)
    ['name'] ["name"]            with escapes \\' \\" \\\\ \\/ \\b \\f \\n \\r \\t \\uXXXX
                                 (surrogate pairs are combined)
    [n] [-n]                     array index
    * [*]                        wildcard on arrays and objects
    [start:stop:step]            Python/RFC 9535 slice semantics; step 0 is a
                                 PathSyntaxError ("Slice step cannot be zero")
    [a,b,...]                    union of quoted names, indices, slices, *, ?filter,
                                 and @-/$-rooted sub-paths
    ..name ..'name' ..* ..[...]  recursive descent (also a trailing "..")
    ^                            parent operator
    [?(expr)] [?expr]            filter over array elements AND over object member values
        operands : numbers, 'str', "str", true, false, null, JSON array/object
                   literals (JSON syntax, i.e. double quotes), @-paths, $-paths, (expr)
        operators: == != < <= > >= && || !
    name `length` on an array / string -> element count / code point count
        (documented in jsonpath.md; the result is a synthesized value)

NotSupported (raised by parse)
    function calls (length(...), keys(...), ...), regex  =~ /re/, arithmetic
    + - * / % and unary minus on non-literals, expression indices  [(...)],
    JMESPath style back-tick literals.

Semantics implemented (see the report / selftest for the evidence)
    * object members are visited in the dict's own order (caller passes sorted dicts)
    * results are produced as a left-to-right flat-map over the selector chain;
      duplicates are kept
    * recursive descent: pre-order, the node itself first, then its children in
      order; only arrays/objects are visited (scalars cannot match any selector),
      so a trailing ".." yields every container node
    * union: for each input node, each union item in the order written
    * filters: value of a sub-path = its single value or NOTHING when the path is
      *singular* (only names / indices / ^), otherwise a JSON array of all values.
      NOTHING compares like null.  == / != are deep, type-strict (true != 1) with
      int/float compared numerically.  < <= > >= are defined for number/number and
      string/string only (code point order), everything else is false.
      Truthiness: false for NOTHING, null, false, "", [], {}; true otherwise
      (0 is true).  `!x` is a boolean; `a && b` = b if a is truthy else a;
      `a || b` = a if a is truthy else b (only observable when the result of a
      logical operator is itself compared - the generator never does that).
      Precedence (low to high): ||, &&, == !=, < <= > >=, unary !.
    * a name applied to an array: a decimal integer name ("1", "-1") acts as an
      index ($.foo.1), `length` gives the size, anything else selects nothing.
      An index applied to an object selects nothing.

`notes`: pass a set to evaluate(); tags of less certain semantics that were
actually exercised are added to it: 'name-as-index', 'length-property', 'parent',
'nonsingular-path-value', 'logical-op-value', 'trailing-descent', 'top-level-@'.

AST
---
    path  := ('path', '$'|'@', [step, ...], singular: bool)
    step  := ('name', str) | ('index', int) | ('slice', start|None, stop|None, step)
           | ('wild',) | ('desc',) | ('parent',) | ('filter', expr)
           | ('union', [item, ...])        item := step | ('subpath', path)
    expr  := ('lit', value) | ('path', path) | ('not', e) | ('and', a, b)
           | ('or', a, b) | ('cmp', op, a, b)
"""
from __future__ import annotations

import json
import random
import re
import sys

__all__ = [
    "NotSupported", "PathSyntaxError", "parse", "evaluate", "dedup", "sort_by_path",
    "normalized_path", "parse_normalized_path", "sort_keys", "deep_equal",
    "gen_document", "gen_expression",
]


class NotSupported(Exception):
    """The expression uses a construct outside the core implemented here."""


class PathSyntaxError(Exception):
    """The expression is not syntactically valid."""


# --------------------------------------------------------------------------------------
# Parser
# --------------------------------------------------------------------------------------

_WS = " \t\r\n"
_INT_RE = re.compile(r"-?[0-9]+")
_NUM_RE = re.compile(r"-?(?:0|[1-9][0-9]*)(?:\.[0-9]+)?(?:[eE][+-]?[0-9]+)?")
_IDENT_RE = re.compile(r"[A-Za-z_][A-Za-z0-9_]*")
_FUNC_RE = re.compile(
    r"""\s*(?:[A-Za-z_][A-Za-z0-9_]*|"(?:[^"\\]|\\.)*"|'(?:[^'\\]|\\.)*')\s*\(""", re.S)
_HEX4_RE = re.compile(r"[0-9a-fA-F]{4}")
_DECINT_NAME_RE = re.compile(r"-?(?:0|[1-9][0-9]*)\Z")
_JSON_DECODER = json.JSONDecoder()

_SIMPLE_ESCAPES = {
    '"': '"', "'": "'", "\\": "\\", "/": "/",
    "b": "\b", "f": "\f", "n": "\n", "r": "\r", "t": "\t",
}

_WILD = ("wild",)
_DESC = ("desc",)
_PARENT = ("parent",)


def _is_name_char(c: str) -> bool:
    return (c == "_" or "a" <= c <= "z" or "A" <= c <= "Z" or "0" <= c <= "9"
            or c >= "\x80")


class _Parser:
    def __init__(self, text: str):
        self.t = text
        self.i = 0
        self.n = len(text)

    # -- helpers ----------------------------------------------------------------------
    def peek(self) -> str:
        return self.t[self.i] if self.i < self.n else ""

    def ws(self) -> None:
        t, n, i = self.t, self.n, self.i
        while i < n and t[i] in _WS:
            i += 1
        self.i = i

    def err(self, msg: str):
        raise PathSyntaxError("%s at offset %d in %r" % (msg, self.i, self.t))

    def unsupported(self, what: str):
        raise NotSupported("%s at offset %d in %r" % (what, self.i, self.t))

    # -- top level --------------------------------------------------------------------
    def parse_top(self):
        self.ws()
        c = self.peek()
        if c == "":
            self.err("empty expression")
        if c in "$@":
            self.i += 1
            if c == "$" and self.i < self.n and _is_name_char(self.t[self.i]):
                self.err("expected '.' or '[' after '$'")
            steps = self.parse_steps()
            self.ws()
            if self.i < self.n:
                # a top level path followed by an arithmetic/comparison operator or
                # anything else: not a path
                self.err("unexpected character %r" % self.peek())
            return _mkpath(c, steps)
        if _FUNC_RE.match(self.t, self.i):
            self.unsupported("function call")
        self.err("expected '$'")

    # -- steps ------------------------------------------------------------------------
    def parse_steps(self):
        steps = []
        while True:
            save = self.i
            self.ws()
            c = self.peek()
            if c == ".":
                if self.t.startswith("..", self.i):
                    self.i += 2
                    steps.append(_DESC)
                    save2 = self.i
                    self.ws()
                    c = self.peek()
                    if c == "[":
                        steps.append(self.parse_bracket())
                    elif c == "*":
                        self.i += 1
                        steps.append(_WILD)
                    elif c == "'" or c == '"':
                        steps.append(("name", self.parse_quoted()))
                    elif c and _is_name_char(c):
                        steps.append(("name", self.parse_unquoted()))
                    else:
                        self.i = save2  # trailing descent: every container node
                else:
                    self.i += 1
                    self.ws()
                    c = self.peek()
                    if c == "*":
                        self.i += 1
                        steps.append(_WILD)
                    elif c == "'" or c == '"':
                        steps.append(("name", self.parse_quoted()))
                    elif c and _is_name_char(c):
                        steps.append(("name", self.parse_unquoted()))
                    else:
                        self.err("expected a name or '*' after '.'")
            elif c == "[":
                steps.append(self.parse_bracket())
            elif c == "^":
                self.i += 1
                steps.append(_PARENT)
            else:
                self.i = save
                return steps

    def parse_unquoted(self) -> str:
        t, n, i = self.t, self.n, self.i
        j = i
        while j < n and _is_name_char(t[j]):
            j += 1
        self.i = j
        return t[i:j]

    def parse_quoted(self) -> str:
        t, n = self.t, self.n
        q = t[self.i]
        self.i += 1
        out = []
        while True:
            if self.i >= n:
                self.err("unterminated quoted string")
            c = t[self.i]
            if c == q:
                self.i += 1
                return "".join(out)
            if c == "\\":
                self.i += 1
                if self.i >= n:
                    self.err("unterminated escape")
                e = t[self.i]
                if e in _SIMPLE_ESCAPES:
                    out.append(_SIMPLE_ESCAPES[e])
                    self.i += 1
                elif e == "u":
                    cp = self._hex4(self.i + 1)
                    self.i += 5
                    if 0xD800 <= cp <= 0xDBFF:
                        if t.startswith("\\u", self.i):
                            lo = self._hex4(self.i + 2)
                            if 0xDC00 <= lo <= 0xDFFF:
                                self.i += 6
                                cp = 0x10000 + ((cp - 0xD800) << 10) + (lo - 0xDC00)
                            else:
                                self.err("unpaired surrogate escape")
                        else:
                            self.err("unpaired surrogate escape")
                    elif 0xDC00 <= cp <= 0xDFFF:
                        self.err("unpaired surrogate escape")
                    out.append(chr(cp))
                else:
                    self.err("invalid escape \\%s" % e)
            else:
                out.append(c)
                self.i += 1

    def _hex4(self, pos: int) -> int:
        m = _HEX4_RE.match(self.t, pos)
        if not m:
            self.i = pos
            self.err("expected four hex digits")
        return int(m.group(0), 16)

    # -- brackets ---------------------------------------------------------------------
    def parse_bracket(self):
        self.i += 1  # '['
        items = []
        while True:
            self.ws()
            items.append(self.parse_bracket_item())
            self.ws()
            c = self.peek()
            if c == ",":
                self.i += 1
                continue
            if c == "]":
                self.i += 1
                break
            if c == "":
                self.err("unterminated '['")
            self.err("expected ',' or ']'")
        if len(items) == 1 and items[0][0] != "subpath":
            return items[0]
        return ("union", items)

    def parse_bracket_item(self):
        c = self.peek()
        if c == "'" or c == '"':
            return ("name", self.parse_quoted())
        if c == "*":
            self.i += 1
            return _WILD
        if c == "?":
            self.i += 1
            return ("filter", self.parse_expr())
        if c == "@" or c == "$":
            self.i += 1
            return ("subpath", _mkpath(c, self.parse_steps()))
        if c == "(":
            self.unsupported("expression index [(...)]")
        if c and (c in "-:" or "0" <= c <= "9"):
            return self.parse_index_or_slice()
        if c == "":
            self.err("unterminated '['")
        self.err("unexpected %r in brackets (names must be quoted)" % c)

    def opt_int(self):
        m = _INT_RE.match(self.t, self.i)
        if not m:
            return None
        self.i = m.end()
        return int(m.group(0))

    def parse_index_or_slice(self):
        a = self.opt_int()
        save = self.i
        self.ws()
        if self.peek() != ":":
            self.i = save
            if a is None:
                self.err("expected an integer")
            return ("index", a)
        self.i += 1
        self.ws()
        b = self.opt_int()
        step = None
        save = self.i
        self.ws()
        if self.peek() == ":":
            self.i += 1
            self.ws()
            step = self.opt_int()
            if step == 0:
                self.err("Slice step cannot be zero")
        else:
            self.i = save
        return ("slice", a, b, 1 if step is None else step)

    # -- filter expressions -----------------------------------------------------------
    def parse_expr(self):
        left = self.parse_and()
        while True:
            self.ws()
            if self.t.startswith("||", self.i):
                self.i += 2
                left = ("or", left, self.parse_and())
            else:
                return left

    def parse_and(self):
        left = self.parse_eq()
        while True:
            self.ws()
            if self.t.startswith("&&", self.i):
                self.i += 2
                left = ("and", left, self.parse_eq())
            else:
                return left

    def parse_eq(self):
        left = self.parse_rel()
        while True:
            self.ws()
            t, i = self.t, self.i
            if t.startswith("==", i):
                op = "=="
            elif t.startswith("!=", i):
                op = "!="
            elif t.startswith("=~", i):
                self.unsupported("regex operator =~")
            else:
                return left
            self.i += 2
            left = ("cmp", op, left, self.parse_rel())

    def parse_rel(self):
        left = self.parse_arith()
        while True:
            self.ws()
            t, i = self.t, self.i
            if t.startswith("<=", i):
                op = "<="
            elif t.startswith(">=", i):
                op = ">="
            elif t.startswith("<", i):
                op = "<"
            elif t.startswith(">", i):
                op = ">"
            elif t.startswith("=~", i):
                self.unsupported("regex operator =~")
            else:
                return left
            self.i += len(op)
            left = ("cmp", op, left, self.parse_arith())

    def parse_arith(self):
        left = self.parse_unary()
        self.ws()
        c = self.peek()
        if c and c in "+-*/%":
            self.unsupported("arithmetic operator %r" % c)
        return left

    def parse_unary(self):
        self.ws()
        c = self.peek()
        if c == "!":
            self.i += 1
            return ("not", self.parse_unary())
        return self.parse_primary()

    def parse_primary(self):
        self.ws()
        c = self.peek()
        if c == "":
            self.err("unexpected end of filter expression")
        if c == "(":
            self.i += 1
            e = self.parse_expr()
            self.ws()
            if self.peek() != ")":
                self.err("expected ')'")
            self.i += 1
            return e
        if c == "@" or c == "$":
            self.i += 1
            return ("path", _mkpath(c, self.parse_steps()))
        if c == "'" or c == '"':
            return ("lit", self.parse_quoted())
        if c == "-" or "0" <= c <= "9":
            m = _NUM_RE.match(self.t, self.i)
            if not m:
                if c == "-":
                    self.unsupported("unary minus")
                self.err("malformed number")
            txt = m.group(0)
            self.i = m.end()
            nxt = self.peek()
            if nxt and (_is_name_char(nxt) or nxt == "."):
                self.err("malformed number")
            if "." in txt or "e" in txt or "E" in txt:
                return ("lit", float(txt))
            return ("lit", int(txt))
        if c == "[" or c == "{":
            try:
                val, end = _JSON_DECODER.raw_decode(self.t, self.i)
            except ValueError:
                self.err("malformed JSON literal")
            self.i = end
            return ("lit", val)
        if c == "`":
            self.unsupported("back-tick literal")
        if c == "/":
            self.unsupported("regex literal")
        m = _IDENT_RE.match(self.t, self.i)
        if m:
            word = m.group(0)
            j = m.end()
            while j < self.n and self.t[j] in _WS:
                j += 1
            if j < self.n and self.t[j] == "(":
                self.unsupported("function call %s(...)" % word)
            if m.end() < self.n and _is_name_char(self.t[m.end()]):
                self.err("unexpected identifier")
            if word == "true":
                self.i = m.end()
                return ("lit", True)
            if word == "false":
                self.i = m.end()
                return ("lit", False)
            if word == "null":
                self.i = m.end()
                return ("lit", None)
            self.err("unexpected identifier %r" % word)
        self.err("expected an operand, found %r" % c)


def _mkpath(root: str, steps):
    singular = all(s[0] in ("name", "index", "parent") for s in steps)
    return ("path", root, steps, singular)


def parse(expr: str):
    """Parse a JSONPath expression; raises PathSyntaxError / NotSupported."""
    if not isinstance(expr, str):
        raise TypeError("expression must be a str")
    try:
        return _Parser(expr).parse_top()
    except RecursionError:
        raise PathSyntaxError("expression nested too deeply: %r" % expr[:60]) from None


# --------------------------------------------------------------------------------------
# Evaluation
# --------------------------------------------------------------------------------------

class _Nothing:
    __slots__ = ()

    def __repr__(self):
        return "NOTHING"


NOTHING = _Nothing()


def _is_num(v) -> bool:
    return (type(v) is int or type(v) is float
            or (isinstance(v, (int, float)) and not isinstance(v, bool)))


def deep_equal(a, b) -> bool:
    """JSON equality: type strict (true != 1), ints and floats compare numerically,
    objects compare as unordered maps."""
    if isinstance(a, bool) or isinstance(b, bool):
        return isinstance(a, bool) and isinstance(b, bool) and a == b
    if a is None or b is None:
        return a is None and b is None
    if _is_num(a):
        return _is_num(b) and a == b
    if isinstance(a, str):
        return isinstance(b, str) and a == b
    if isinstance(a, list):
        if not isinstance(b, list) or len(a) != len(b):
            return False
        for x, y in zip(a, b):
            if not deep_equal(x, y):
                return False
        return True
    if isinstance(a, dict):
        if not isinstance(b, dict) or len(a) != len(b):
            return False
        for k, x in a.items():
            if k not in b or not deep_equal(x, b[k]):
                return False
        return True
    return False


def _truthy(v) -> bool:
    if v is NOTHING or v is None:
        return False
    if isinstance(v, bool):
        return v
    if isinstance(v, (str, list, dict)):
        return len(v) > 0
    return True  # every number, including 0


def _compare(op: str, a, b) -> bool:
    if a is NOTHING:
        a = None
    if b is NOTHING:
        b = None
    if op == "==":
        return deep_equal(a, b)
    if op == "!=":
        return not deep_equal(a, b)
    if _is_num(a) and _is_num(b):
        pass
    elif isinstance(a, str) and isinstance(b, str):
        pass
    else:
        return False
    if op == "<":
        return a < b
    if op == "<=":
        return a <= b
    if op == ">":
        return a > b
    if op == ">=":
        return a >= b
    raise AssertionError(op)


class _Eval:
    def __init__(self, root, notes=None):
        self.root = root
        self.notes = notes

    def note(self, tag: str) -> None:
        if self.notes is not None:
            self.notes.add(tag)

    # -- paths ------------------------------------------------------------------------
    def run_path(self, path, cur):
        nodes = [((), self.root)] if path[1] == "$" else [cur]
        steps = path[2]
        for k, st in enumerate(steps):
            if st is _DESC and k == len(steps) - 1:
                self.note("trailing-descent")
            nodes = self.step(st, nodes)
            if not nodes:
                break
        return nodes

    def step(self, st, nodes):
        kind = st[0]
        out = []
        if kind == "desc":
            for nd in nodes:
                self._descend(nd, out)
        elif kind == "parent":
            self.note("parent")
            for p, _v in nodes:
                if not p:
                    continue
                pp = p[:-1]
                ok, pv = self._navigate(pp)
                if ok:
                    out.append((pp, pv))
        elif kind == "union":
            items = st[1]
            for nd in nodes:
                for it in items:
                    self._select(it, nd, out)
        else:
            for nd in nodes:
                self._select(st, nd, out)
        return out

    def _navigate(self, elems):
        v = self.root
        for e in elems:
            if isinstance(e, int):
                if isinstance(v, list) and 0 <= e < len(v):
                    v = v[e]
                else:
                    return False, None
            else:
                if isinstance(v, dict) and e in v:
                    v = v[e]
                else:
                    return False, None
        return True, v

    @staticmethod
    def _descend(node, out):
        stack = [node]
        while stack:
            p, v = stack.pop()
            if isinstance(v, dict):
                out.append((p, v))
                kids = [(p + (k,), c) for k, c in v.items()
                        if isinstance(c, (dict, list))]
            elif isinstance(v, list):
                out.append((p, v))
                kids = [(p + (i,), c) for i, c in enumerate(v)
                        if isinstance(c, (dict, list))]
            else:
                continue
            kids.reverse()
            stack.extend(kids)

    def _select(self, st, node, out):
        kind = st[0]
        p, v = node
        if kind == "name":
            name = st[1]
            if isinstance(v, dict):
                if name in v:
                    out.append((p + (name,), v[name]))
            elif isinstance(v, list):
                if _DECINT_NAME_RE.match(name):
                    self.note("name-as-index")
                    i = int(name)
                    n = len(v)
                    if i < 0:
                        i += n
                    if 0 <= i < n:
                        out.append((p + (i,), v[i]))
                elif name == "length":
                    self.note("length-property")
                    out.append((p + ("length",), len(v)))
            elif isinstance(v, str) and name == "length":
                self.note("length-property")
                out.append((p + ("length",), len(v)))
        elif kind == "index":
            if isinstance(v, list):
                i = st[1]
                n = len(v)
                if i < 0:
                    i += n
                if 0 <= i < n:
                    out.append((p + (i,), v[i]))
        elif kind == "slice":
            if isinstance(v, list):
                for i in range(*slice(st[1], st[2], st[3]).indices(len(v))):
                    out.append((p + (i,), v[i]))
        elif kind == "wild":
            if isinstance(v, list):
                for i, c in enumerate(v):
                    out.append((p + (i,), c))
            elif isinstance(v, dict):
                for k, c in v.items():
                    out.append((p + (k,), c))
        elif kind == "filter":
            e = st[1]
            if isinstance(v, list):
                for i, c in enumerate(v):
                    nd = (p + (i,), c)
                    if _truthy(self.eval_expr(e, nd)):
                        out.append(nd)
            elif isinstance(v, dict):
                for k, c in v.items():
                    nd = (p + (k,), c)
                    if _truthy(self.eval_expr(e, nd)):
                        out.append(nd)
        elif kind == "subpath":
            out.extend(self.run_path(st[1], node))
        elif kind == "union":  # not produced by the parser, harmless
            for it in st[1]:
                self._select(it, node, out)
        elif kind == "desc" or kind == "parent":
            out.extend(self.step(st, [node]))
        else:
            raise AssertionError(kind)

    # -- filter expressions -----------------------------------------------------------
    def eval_expr(self, e, cur):
        kind = e[0]
        if kind == "lit":
            return e[1]
        if kind == "path":
            path = e[1]
            nodes = self.run_path(path, cur)
            if path[3]:
                return nodes[0][1] if nodes else NOTHING
            self.note("nonsingular-path-value")
            return [v for _p, v in nodes]
        if kind == "cmp":
            if e[2][0] in ("and", "or") or e[3][0] in ("and", "or"):
                self.note("logical-op-value")
            return _compare(e[1], self.eval_expr(e[2], cur), self.eval_expr(e[3], cur))
        if kind == "not":
            return not _truthy(self.eval_expr(e[1], cur))
        if kind == "and":
            a = self.eval_expr(e[1], cur)
            if not _truthy(a):
                return a
            return self.eval_expr(e[2], cur)
        if kind == "or":
            a = self.eval_expr(e[1], cur)
            if _truthy(a):
                return a
            return self.eval_expr(e[2], cur)
        raise AssertionError(kind)


def _escape_name(name: str) -> str:
    out = []
    for c in name:
        if c == "'":
            out.append("\\'")
        elif c == "\\":
            out.append("\\\\")
        elif c < " ":
            if c == "\b":
                out.append("\\b")
            elif c == "\f":
                out.append("\\f")
            elif c == "\n":
                out.append("\\n")
            elif c == "\r":
                out.append("\\r")
            elif c == "\t":
                out.append("\\t")
            else:
                out.append("\\u%04x" % ord(c))
        else:
            out.append(c)
    return "".join(out)


def normalized_path(elements) -> str:
    """('a', 0, "it's") -> $['a'][0]['it\\'s']"""
    parts = ["$"]
    for e in elements:
        if isinstance(e, int) and not isinstance(e, bool):
            parts.append("[%d]" % e)
        else:
            parts.append("['%s']" % _escape_name(e))
    return "".join(parts)


def parse_normalized_path(s: str):
    """Inverse of normalized_path(): returns a tuple of str / int elements."""
    ast = parse(s)
    if ast[1] != "$":
        raise PathSyntaxError("normalized path must start with '$': %r" % s)
    out = []
    for st in ast[2]:
        if st[0] == "name":
            out.append(st[1])
        elif st[0] == "index" and st[1] >= 0:
            out.append(st[1])
        else:
            raise PathSyntaxError("not a normalized path: %r" % s)
    return tuple(out)


def evaluate(expr_or_ast, doc, notes=None):
    """Evaluate against `doc`; returns [(normalized_path, value), ...] (duplicates kept).

    `value` is the very object inside `doc` (identity preserved), except for the
    synthesized `length` property.  If `notes` is a set, tags naming less certain
    semantics that were exercised are added to it."""
    ast = parse(expr_or_ast) if isinstance(expr_or_ast, str) else expr_or_ast
    if not (isinstance(ast, tuple) and ast and ast[0] == "path"):
        raise TypeError("expected an expression string or an AST returned by parse()")
    ev = _Eval(doc, notes)
    if ast[1] == "@":
        ev.note("top-level-@")
    nodes = ev.run_path(ast, ((), doc))
    cache = {}
    out = []
    for p, v in nodes:
        s = cache.get(p)
        if s is None:
            s = cache[p] = normalized_path(p)
        out.append((s, v))
    return out


def dedup(results):
    """Remove later results whose normalized path was already seen (order kept)."""
    seen = set()
    out = []
    for r in results:
        if r[0] in seen:
            continue
        seen.add(r[0])
        out.append(r)
    return out


def _path_sort_key(path_str: str):
    # index elements sort before name elements at the same position (this can only
    # matter for the synthesized 'length' member of an array); names compare by
    # code point (== UTF-8 byte order); a prefix sorts before its extensions.
    return tuple((0, e, "") if isinstance(e, int) else (1, 0, e)
                 for e in parse_normalized_path(path_str))


def sort_by_path(results):
    """Stable sort by normalized path, element-wise (indices numerically, names as
    strings, shorter prefix first)."""
    return sorted(results, key=lambda r: _path_sort_key(r[0]))


def sort_keys(value):
    """Return a copy with every object's members in UTF-8 byte order of their keys
    (the order the C++ `json` type keeps them in)."""
    if isinstance(value, dict):
        return {k: sort_keys(value[k])
                for k in sorted(value, key=lambda s: s.encode("utf-8", "surrogatepass"))}
    if isinstance(value, list):
        return [sort_keys(v) for v in value]
    return value


# --------------------------------------------------------------------------------------
# Generators
# --------------------------------------------------------------------------------------

_KEYS_COMMON = ["a", "b", "c", "name", "id"]
_KEYS_TRICKY = ["0", "1", "", "a b", "it's", 'say "hi"', "back\\slash", "é",
                "dotted.key", "$", "@", "*", "-1"]
KEY_ALPHABET = _KEYS_COMMON + _KEYS_TRICKY
_STRINGS = ["", "a", "b", "abc", "a b", "it's", "é", "1", "x", 'q"q']
_FLOATS = [-1.5, 0.5, 1.5, 2.5, 7.5]
_MISSING = object()


def _gen_key(rng):
    if rng.random() < 0.6:
        return rng.choice(_KEYS_COMMON)
    return rng.choice(_KEYS_TRICKY)


def _gen_scalar(rng):
    r = rng.random()
    if r < 0.40:
        return rng.randint(-2, 9)
    if r < 0.50:
        return rng.choice(_FLOATS)
    if r < 0.75:
        return rng.choice(_STRINGS)
    if r < 0.87:
        return rng.random() < 0.5
    return None


def _gen_object(rng, depth):
    n = rng.choice([0, 1, 2, 2, 3, 3, 4, 5])
    d = {}
    for _ in range(n):
        d[_gen_key(rng)] = _gen_value(rng, depth - 1)
    return d


def _gen_array(rng, depth):
    r = rng.random()
    if r < 0.08:
        return []
    if r < 0.30:
        return [rng.randint(-2, 9) if rng.random() < 0.8 else rng.choice(_FLOATS)
                for _ in range(rng.randint(1, 5))]
    if r < 0.40:
        return [rng.choice(_STRINGS) for _ in range(rng.randint(1, 4))]
    if r < 0.75 and depth > 0:
        # array of similar objects so that filters are meaningful
        keys = []
        for _ in range(rng.randint(1, 3)):
            k = _gen_key(rng)
            if k not in keys:
                keys.append(k)
        kinds = {k: rng.choice(["int", "int", "str", "any", "nested"]) for k in keys}
        arr = []
        for _ in range(rng.randint(1, 4)):
            o = {}
            for k in keys:
                if rng.random() < 0.85:
                    kd = kinds[k]
                    if kd == "int":
                        o[k] = rng.randint(0, 5)
                    elif kd == "str":
                        o[k] = rng.choice(_STRINGS)
                    elif kd == "any":
                        o[k] = _gen_scalar(rng)
                    else:
                        o[k] = _gen_value(rng, depth - 1)
            arr.append(o)
        return arr
    return [_gen_value(rng, depth - 1) for _ in range(rng.randint(1, 4))]


def _gen_value(rng, depth):
    if depth <= 0:
        return _gen_scalar(rng)
    r = rng.random()
    if r < 0.30:
        return _gen_scalar(rng)
    if r < 0.65:
        return _gen_object(rng, depth)
    return _gen_array(rng, depth)


def gen_document(rng: random.Random, depth: int = 3):
    """Random JSON document (dict keys sorted in byte order, as the C++ side keeps them)."""
    r = rng.random()
    if r >= 0.98:
        return _gen_scalar(rng)
    v = None
    for _ in range(4):  # an empty root is legal but boring: make it rare
        v = _gen_object(rng, depth) if r < 0.62 else _gen_array(rng, depth)
        if v:
            break
    return sort_keys(v)


_UNQUOTED_OK_RE = re.compile(r"[A-Za-z0-9_\u0080-\U0010ffff]+\Z")


def _quote(rng, s: str, q: str = None, allow_u: bool = True) -> str:
    """Quote `s` with ' or " using the documented escapes."""
    if q is None:
        q = "'" if rng.random() < 0.6 else '"'
    out = [q]
    for c in s:
        if c == q:
            out.append("\\" + c)
        elif c == "\\":
            out.append("\\\\")
        elif c == "\b":
            out.append("\\b")
        elif c == "\f":
            out.append("\\f")
        elif c == "\n":
            out.append("\\n")
        elif c == "\r":
            out.append("\\r")
        elif c == "\t":
            out.append("\\t")
        elif c < " ":
            out.append("\\u%04x" % ord(c))
        elif c >= "\x80" and allow_u and rng.random() < 0.15:
            cp = ord(c)
            if cp >= 0x10000:
                cp -= 0x10000
                out.append("\\u%04x\\u%04x" % (0xD800 + (cp >> 10), 0xDC00 + (cp & 0x3FF)))
            else:
                out.append("\\u%04X" % cp)
        elif c == "/" and rng.random() < 0.1:
            out.append("\\/")
        else:
            out.append(c)
    out.append(q)
    return "".join(out)


def _literal_text(rng, v) -> str:
    if v is None:
        return "null"
    if v is True:
        return "true"
    if v is False:
        return "false"
    if isinstance(v, int):
        return str(v)
    if isinstance(v, float):
        return repr(v)
    if isinstance(v, str):
        return _quote(rng, v)
    raise AssertionError(v)


class _ExprGen:
    def __init__(self, rng, doc, depth):
        self.rng = rng
        self.doc = doc
        self.depth = max(0, depth)
        self.ev = _Eval(doc, None)
        self.ndesc = 0

    # -- small pieces -----------------------------------------------------------------
    def sp(self, p=0.15):
        return " " if self.rng.random() < p else ""

    def pick_key(self, d, p_missing=0.08):
        rng = self.rng
        if isinstance(d, dict) and d and rng.random() >= p_missing:
            return rng.choice(list(d.keys()))
        return rng.choice(KEY_ALPHABET + ["zz", "missing"])

    def name_piece(self, name, in_filter=False):
        """A child-by-name selector in a random notation."""
        rng = self.rng
        forms = ["bq", "bq", "dq"]
        if _UNQUOTED_OK_RE.match(name):
            forms += ["dot", "dot", "dot", "dot"]
        f = rng.choice(forms)
        dot = "."
        if not in_filter and rng.random() < 0.03:
            dot = " . "
        if f == "dot":
            return dot + name
        if f == "dq":
            return dot + _quote(rng, name)
        s = self.sp(0.05)
        return "[" + s + _quote(rng, name) + s + "]"

    def index_text(self, n, p_oor=0.08):
        rng = self.rng
        if n > 0 and rng.random() >= p_oor:
            i = rng.randrange(n)
            if rng.random() < 0.3:
                i -= n
            return str(i)
        return str(rng.choice([n, n + 1, -n - 1, -n - 2, 7, -7]))

    def slice_text(self, n):
        rng = self.rng

        def bound():
            if rng.random() < 0.35:
                return ""
            if rng.random() < 0.15:
                return str(rng.choice([-n - 2, -n - 1, n + 1, n + 2, 100, -100]))
            return str(rng.randint(-n, n))

        r = rng.random()
        if r < 0.45:
            step = None
        elif r < 0.55:
            step = ""
        else:
            step = rng.choice([1, 2, 3, -1, -1, -2, -3])
        a, b = bound(), bound()
        if a and b and rng.random() < 0.7:
            # steer towards a non-empty selection
            ia, ib = int(a), int(b)
            na = ia + n if ia < 0 else ia
            nb = ib + n if ib < 0 else ib
            neg = isinstance(step, int) and step < 0
            if (na > nb) != neg:
                a, b = b, a
        if step is None:
            return "%s:%s" % (a, b)
        return "%s:%s:%s" % (a, b, step)

    # -- singular sub-paths for filters -----------------------------------------------
    def rel_path(self, sample, maxlen=2):
        """'@...' singular path steered by `sample`; returns (text, value|_MISSING)."""
        rng = self.rng
        text = "@"
        v = sample
        for k in range(maxlen):
            if isinstance(v, dict):
                if k > 0 and rng.random() < 0.4:
                    break
                key = self.pick_key(v)
                text += self.name_piece(key, in_filter=True)
                v = v.get(key, _MISSING)
            elif isinstance(v, list):
                if k > 0 and rng.random() < 0.4:
                    break
                n = len(v)
                it = self.index_text(n)
                text += "[" + it + "]"
                i = int(it)
                if i < 0:
                    i += n
                v = v[i] if 0 <= i < n else _MISSING
            else:
                if k == 0 and v is not _MISSING and rng.random() < 0.15:
                    text += self.name_piece(self.pick_key(None), in_filter=True)
                    v = _MISSING
                break
        return text, v

    def abs_path(self):
        """'$...' singular path to some existing node; returns (text, value)."""
        rng = self.rng
        text = "$"
        v = self.doc
        for _ in range(rng.randint(1, 3)):
            if isinstance(v, dict) and v:
                key = rng.choice(list(v.keys()))
                text += self.name_piece(key, in_filter=True)
                v = v[key]
            elif isinstance(v, list) and v:
                i = rng.randrange(len(v))
                text += "[%d]" % i
                v = v[i]
            else:
                break
        return text, v

    def literal_for(self, v):
        """Literal text related to the value `v` found in the document."""
        rng = self.rng
        r = rng.random()
        if v is _MISSING or isinstance(v, (dict, list)) or r < 0.15:
            return _literal_text(rng, _gen_scalar(rng))
        if r < 0.65:
            return _literal_text(rng, v)
        if isinstance(v, bool):
            return _literal_text(rng, not v)
        if isinstance(v, int):
            return _literal_text(rng, v + rng.choice([-1, 1, 2]))
        if isinstance(v, float):
            return _literal_text(rng, v + rng.choice([-1, 0.5, 1]))
        if isinstance(v, str):
            return _literal_text(rng, rng.choice(_STRINGS))
        return _literal_text(rng, _gen_scalar(rng))

    # -- filter expressions -----------------------------------------------------------
    def children_of(self, rep):
        if isinstance(rep, dict):
            return list(rep.values())
        if isinstance(rep, list):
            return list(rep)
        return []

    def filter_atom(self, children, d):
        rng = self.rng
        sample = rng.choice(children) if children else _gen_value(rng, 1)
        ptext, pv = self.rel_path(sample)
        r = rng.random()
        if d > 0 and isinstance(pv, (list, dict)) and pv and r < 0.35:
            # nested filter used as an existence test
            inner = self.filter_expr(self.children_of(pv), d - 1)
            return ptext + self.filter_wrap(inner)
        if r < 0.2:
            return ptext  # existence / truthiness test
        if pv is _MISSING or pv is None or isinstance(pv, (bool, dict, list)):
            # ordering is only defined for numbers and strings: mostly (in)equality here
            op = rng.choice(["==", "==", "==", "!=", "!=", "!=", "<", "<=", ">", ">="])
        else:
            op = rng.choice(["==", "!=", "<", "<=", ">", ">="])
        r = rng.random()
        if r < 0.70:
            rhs = self.literal_for(pv)
        elif r < 0.85:
            rhs, _ = self.rel_path(sample)
        else:
            rhs, _ = self.abs_path()
        s = self.sp(0.4)
        if rng.random() < 0.12:
            ptext, rhs = rhs, ptext
        return ptext + s + op + s + rhs

    def filter_expr(self, children, d):
        rng = self.rng
        r = rng.random()
        if d > 0 and r < 0.25:
            parts = [self.filter_expr(children, d - 1) for _ in range(rng.choice([2, 2, 3]))]
            out = parts[0]
            for p in parts[1:]:
                op = rng.choice(["&&", "||"])
                s = self.sp(0.7)
                out = out + s + op + s + p
            if rng.random() < 0.4:
                out = "(" + out + ")"
            return out
        if r < 0.35:
            inner = self.filter_expr(children, d - 1) if d > 0 else self.filter_atom(children, 0)
            if rng.random() < 0.5 or not inner.startswith("@") or \
                    any(o in inner for o in ("==", "!=", "<", ">", "&&", "||")):
                return "!(" + inner + ")"
            return "!" + inner
        atom = self.filter_atom(children, d)
        if rng.random() < 0.1:
            atom = "(" + atom + ")"
        return atom

    def filter_wrap(self, expr, in_union=False):
        """'[?(expr)]' or '[?expr]' ('?(expr)' / '?expr' inside a union)."""
        paren = self.rng.random() < 0.75 or expr.startswith(("(", "!"))
        body = "?(" + expr + ")" if paren else "?" + expr
        if in_union:
            return body
        return "[" + self.sp(0.05) + body + self.sp(0.05) + "]"

    def filter_piece(self, rep, in_union=False):
        d = min(self.depth, 2)
        return self.filter_wrap(self.filter_expr(self.children_of(rep), d), in_union)

    # -- unions -----------------------------------------------------------------------
    def union_piece(self, rep):
        rng = self.rng
        items = []
        for _ in range(rng.choice([2, 2, 3, 4])):
            r = rng.random()
            if isinstance(rep, list):
                n = len(rep)
                if r < 0.50:
                    items.append(self.index_text(n))
                elif r < 0.70:
                    items.append(self.slice_text(n))
                elif r < 0.78:
                    items.append("*")
                elif r < 0.90:
                    items.append(self.filter_piece(rep, in_union=True))
                else:
                    items.append(self.rel_path(rep)[0])
            else:
                if r < 0.65:
                    items.append(_quote(rng, self.pick_key(rep)))
                elif r < 0.72:
                    items.append("*")
                elif r < 0.85:
                    items.append(self.filter_piece(rep, in_union=True))
                elif r < 0.95:
                    items.append(self.rel_path(rep)[0])
                else:
                    items.append(self.index_text(2))
        if all(it.startswith("@") for it in items) and rng.random() < 0.5:
            items[0] = _quote(rng, self.pick_key(rep)) if not isinstance(rep, list) \
                else self.index_text(len(rep))
        s = self.sp(0.1)
        return "[" + s + (s + "," + s).join(items) + s + "]"

    # -- steps ------------------------------------------------------------------------
    def bracket_or_name_for(self, rep, allow_dot=True):
        """A selector steered by the shape of `rep` (used directly and after '..')."""
        rng = self.rng
        r = rng.random()
        if isinstance(rep, dict):
            if r < 0.55:
                return self.name_piece(self.pick_key(rep)) if allow_dot else None
            if r < 0.68:
                return rng.choice([".*", "[*]"]) if allow_dot else "[*]"
            if r < 0.85:
                return self.filter_piece(rep)
            if r < 0.97:
                return self.union_piece(rep)
            return "[" + self.index_text(2) + "]"
        if isinstance(rep, list):
            n = len(rep)
            if r < 0.35:
                return "[" + self.sp(0.05) + self.index_text(n) + self.sp(0.05) + "]"
            if r < 0.50:
                return "[" + self.slice_text(n) + "]"
            if r < 0.63:
                return rng.choice([".*", "[*]"]) if allow_dot else "[*]"
            if r < 0.83:
                return self.filter_piece(rep)
            if r < 0.95:
                return self.union_piece(rep)
            if r < 0.97 and allow_dot and n:
                return "." + str(rng.randrange(n))  # documented "dot followed by index"
            return self.name_piece(self.pick_key(None)) if allow_dot else "[*]"
        # scalar or nothing selected: anything goes, it will select nothing
        if r < 0.4:
            return self.name_piece(self.pick_key(None)) if allow_dot else "[*]"
        if r < 0.6:
            return "[" + self.index_text(2) + "]"
        if r < 0.75:
            return rng.choice([".*", "[*]"]) if allow_dot else "[*]"
        if r < 0.9:
            return self.filter_piece(rep)
        return "[" + self.slice_text(3) + "]"

    def descent_piece(self, rep):
        rng = self.rng
        pool = []
        _Eval._descend(((), rep), pool)
        sub = rng.choice(pool)[1] if pool else rep
        r = rng.random()
        if isinstance(sub, dict) and r < 0.55:
            key = self.pick_key(sub)
            if _UNQUOTED_OK_RE.match(key) and rng.random() < 0.6:
                return ".." + key
            if rng.random() < 0.3:
                return ".." + _quote(rng, key)
            return "..[" + _quote(rng, key) + "]"
        if r < 0.65:
            return rng.choice(["..*", "..[*]"])
        sel = None
        for _ in range(5):
            sel = self.bracket_or_name_for(sub, allow_dot=False)
            if sel and sel.startswith("["):
                break
        else:
            sel = "[*]"
        return ".." + sel

    def gen_step(self, rep, path_depth):
        rng = self.rng
        r = rng.random()
        if r < 0.04 and path_depth > 0:
            return "^"
        if r < 0.14 and self.ndesc < 2 and isinstance(rep, (dict, list)):
            self.ndesc += 1
            return self.descent_piece(rep)
        return self.bracket_or_name_for(rep)

    def gen(self):
        rng = self.rng
        text = "$"
        nodes = [((), self.doc)]
        nsteps = rng.randint(1, self.depth + 2)
        for k in range(nsteps):
            if not nodes and rng.random() < 0.85:
                break
            if len(nodes) > 300:
                break
            rep = rng.choice(nodes)[1] if nodes else _MISSING
            if not isinstance(rep, (dict, list)) and k > 0 and rng.random() < 0.9:
                break
            # rejection sampling: prefer steps that still select something
            for attempt in range(3):
                piece = self.gen_step(rep, k)
                new_nodes = nodes
                for st in parse("$" + piece)[2]:
                    new_nodes = self.ev.step(st, new_nodes)
                if new_nodes or rng.random() < 0.25:
                    break
            text += piece
            nodes = new_nodes
        if text == "$" and rng.random() < 0.9:
            text += self.bracket_or_name_for(self.doc)
        if rng.random() < 0.03:
            text = text + " "
        return text


def gen_expression(rng: random.Random, doc, depth: int = 3) -> str:
    """Random in-scope expression steered by the shape of `doc`."""
    return _ExprGen(rng, doc, depth).gen()


# --------------------------------------------------------------------------------------

def _main(argv):
    if len(argv) < 3:
        print("usage: jsonpath_ref.py EXPR JSONFILE|-", file=sys.stderr)
        return 2
    text = sys.stdin.read() if argv[2] == "-" else open(argv[2], encoding="utf-8").read()
    doc = sort_keys(json.loads(text))
    notes = set()
    for p, v in evaluate(argv[1], doc, notes):
        print(p, json.dumps(v, ensure_ascii=False, sort_keys=False))
    if notes:
        print("notes:", ", ".join(sorted(notes)), file=sys.stderr)
    return 0


if __name__ == "__main__":
    sys.exit(_main(sys.argv))
