"""Reference implementation of RFC 6901 (JSON Pointer) and RFC 6902 (JSON Patch) over plain Python values
(dict with insertion order, list, str, int, float, bool, None). Written from the RFC texts, not from jsoncons.

All functions are PURE: they never modify their arguments and return a new document that may share unchanged
sub-values with the input (copy-on-write along the addressed path). Callers must not mutate documents in place.

RFC 6901
  sec. 3  json-pointer = *( "/" reference-token ); escaped = "~" ( "0" / "1" ); any other use of "~" is a syntax error
  sec. 4  evaluation: "~1" -> "/" then "~0" -> "~"; object: the token is the member name (exact code point match);
          array: the token must be  array-index = %x30 / ( %x31-39 *(%x30-39) )  or "-" (the nonexistent element after
          the last one: an error for anything that needs an existing value)
RFC 6902
  sec. 4  operation objects: exactly one "op" in {add, remove, replace, move, copy, test}, exactly one "path";
          members that are not defined for the operation are ignored
  sec. 4.1-4.6 semantics of the six operations; sec. 5 error handling: the first failing operation terminates
          processing and the whole patch is deemed unsuccessful (the target is not modified).

Things the RFCs leave open raise Unspecified (callers do not judge them): removing the whole document, moving the whole
document onto itself.
"""
import re

ARRAY_INDEX = re.compile(r"0|[1-9][0-9]*")     # explicit ASCII digit classes: Unicode digits are NOT indices
OPS = ("add", "remove", "replace", "move", "copy", "test")


class PointerError(Exception):
    """kind: syntax/no-leading-slash, syntax/bad-escape, key-not-found, not-a-container, index/empty, index/leading-zero,
    index/sign, index/not-a-number, index/out-of-range, index/dash, root, exists"""

    def __init__(self, kind, depth=None):
        Exception.__init__(self, kind)
        self.kind = kind
        self.depth = depth


class PatchError(Exception):
    def __init__(self, kind, index=-1):
        Exception.__init__(self, kind)
        self.kind = kind
        self.index = index


class Unspecified(Exception):
    def __init__(self, kind, index=-1):
        Exception.__init__(self, kind)
        self.kind = kind
        self.index = index


# ------------------------------------------------------------------------------------------- JSON value equality
def _is_num(x):
    return isinstance(x, (int, float)) and not isinstance(x, bool)


def json_equal(a, b):
    """RFC 6902 sec. 4.6: strings: same characters; numbers: numerically equal; arrays: same length, pairwise equal;
    objects: same member names with equal values (order irrelevant); literals: identical. Types never mix
    (Python's True == 1 is not JSON equality)."""
    if isinstance(a, bool) or isinstance(b, bool):
        return isinstance(a, bool) and isinstance(b, bool) and a is b
    if a is None or b is None:
        return a is None and b is None
    if _is_num(a) or _is_num(b):
        return _is_num(a) and _is_num(b) and a == b
    if isinstance(a, str) or isinstance(b, str):
        return isinstance(a, str) and isinstance(b, str) and a == b
    if isinstance(a, list) or isinstance(b, list):
        if not (isinstance(a, list) and isinstance(b, list)) or len(a) != len(b):
            return False
        return all(json_equal(x, y) for x, y in zip(a, b))
    if isinstance(a, dict) and isinstance(b, dict):
        if len(a) != len(b):
            return False
        for k, v in a.items():
            if k not in b or not json_equal(v, b[k]):
                return False
        return True
    return False


def ordered_equal(a, b):
    """json_equal plus: object members appear in the same order (for insertion-ordered containers)."""
    if isinstance(a, dict) and isinstance(b, dict):
        if list(a.keys()) != list(b.keys()):
            return False
        return all(ordered_equal(a[k], b[k]) for k in a)
    if isinstance(a, list) and isinstance(b, list):
        return len(a) == len(b) and all(ordered_equal(x, y) for x, y in zip(a, b))
    return json_equal(a, b)


# ------------------------------------------------------------------------------------------- RFC 6901 syntax
def parse_pointer(s):
    """JSON string representation of a pointer -> list of unescaped reference tokens."""
    if s == "":
        return []
    if s[0] != "/":
        raise PointerError("syntax/no-leading-slash")
    tokens = []
    for raw in s[1:].split("/"):
        out = []
        i = 0
        n = len(raw)
        while i < n:
            c = raw[i]
            if c == "~":
                nxt = raw[i + 1] if i + 1 < n else ""
                if nxt == "0":
                    out.append("~")
                elif nxt == "1":
                    out.append("/")
                else:
                    raise PointerError("syntax/bad-escape")
                i += 2
            else:
                out.append(c)
                i += 1
        tokens.append("".join(out))
    return tokens


def escape_token(t):
    return t.replace("~", "~0").replace("/", "~1")


def format_pointer(tokens):
    return "".join("/" + escape_token(t) for t in tokens)


def classify_bad_index(t):
    if t == "":
        return "index/empty"
    if re.fullmatch(r"[0-9]+", t):
        return "index/leading-zero"
    if re.fullmatch(r"[+-][0-9]+", t):
        return "index/sign"
    return "index/not-a-number"


def _index(t, n, allow_end, depth=None):
    """array token -> position. allow_end: the position one past the last element is acceptable (insertion)."""
    if t == "-":
        if allow_end:
            return n
        raise PointerError("index/dash", depth)
    if not ARRAY_INDEX.fullmatch(t):
        raise PointerError(classify_bad_index(t), depth)
    i = int(t)
    if i > n or (i == n and not allow_end):
        raise PointerError("index/out-of-range", depth)
    return i


# ------------------------------------------------------------------------------------------- RFC 6901 evaluation
def get(doc, tokens):
    cur = doc
    for d, t in enumerate(tokens):
        if isinstance(cur, dict):
            if t not in cur:
                raise PointerError("key-not-found", d)
            cur = cur[t]
        elif isinstance(cur, list):
            cur = cur[_index(t, len(cur), False, d)]
        else:
            raise PointerError("not-a-container", d)
    return cur


def contains(doc, tokens):
    try:
        get(doc, tokens)
        return True
    except PointerError:
        return False


def _update(cur, tokens, k, leaf, create, created):
    t = tokens[k]
    if k == len(tokens) - 1:
        return leaf(cur, t, k)
    if isinstance(cur, dict):
        if t not in cur:
            if not create:
                raise PointerError("key-not-found", k)
            created.append(k)
            child = {}
        else:
            child = cur[t]
        new_child = _update(child, tokens, k + 1, leaf, create, created)
        out = dict(cur)
        out[t] = new_child          # existing name keeps its position, a new name is appended
        return out
    if isinstance(cur, list):
        i = _index(t, len(cur), False, k)
        new_child = _update(cur[i], tokens, k + 1, leaf, create, created)
        out = list(cur)
        out[i] = new_child
        return out
    raise PointerError("not-a-container", k)


def add(doc, tokens, value, create=False, created=None):
    """RFC 6902 sec. 4.1 'add' at an RFC 6901 location: the whole document is replaced for the empty pointer; an array
    index inserts before the element at that index ('-' or index == length appends, index > length is an error); an
    object member is added or, if it exists, replaced. The parent must exist.
    create=True (jsoncons create_if_missing): missing OBJECT members along the path are created as empty objects."""
    if not tokens:
        return value
    created = [] if created is None else created

    def leaf(cur, t, k):
        if isinstance(cur, dict):
            out = dict(cur)
            out[t] = value
            return out
        if isinstance(cur, list):
            i = _index(t, len(cur), True, k)
            return cur[:i] + [value] + cur[i:]
        raise PointerError("not-a-container", k)
    return _update(doc, tokens, 0, leaf, create, created)


def add_if_absent(doc, tokens, value, create=False, created=None):
    """Like add, but an existing object member (and the whole document, which always exists) is never overwritten."""
    if not tokens:
        raise PointerError("exists")
    created = [] if created is None else created

    def leaf(cur, t, k):
        if isinstance(cur, dict):
            if t in cur:
                raise PointerError("exists", k)
            out = dict(cur)
            out[t] = value
            return out
        if isinstance(cur, list):
            i = _index(t, len(cur), True, k)
            return cur[:i] + [value] + cur[i:]
        raise PointerError("not-a-container", k)
    return _update(doc, tokens, 0, leaf, create, created)


def replace(doc, tokens, value, create=False, created=None):
    """RFC 6902 sec. 4.3: the target location must exist; its value is replaced. create=True (jsoncons): missing object
    members along the path - including the last one - are created."""
    if not tokens:
        return value
    created = [] if created is None else created

    def leaf(cur, t, k):
        if isinstance(cur, dict):
            if t not in cur:
                if not create:
                    raise PointerError("key-not-found", k)
                created.append(k)
            out = dict(cur)
            out[t] = value
            return out
        if isinstance(cur, list):
            i = _index(t, len(cur), False, k)
            out = list(cur)
            out[i] = value
            return out
        raise PointerError("not-a-container", k)
    return _update(doc, tokens, 0, leaf, create, created)


def remove(doc, tokens):
    """RFC 6902 sec. 4.2: the target location must exist; array elements to the right shift left."""
    if not tokens:
        raise PointerError("root")

    def leaf(cur, t, k):
        if isinstance(cur, dict):
            if t not in cur:
                raise PointerError("key-not-found", k)
            out = dict(cur)
            del out[t]
            return out
        if isinstance(cur, list):
            i = _index(t, len(cur), False, k)
            return cur[:i] + cur[i + 1:]
        raise PointerError("not-a-container", k)
    return _update(doc, tokens, 0, leaf, False, [])


def get_create(doc, tokens, created=None):
    """jsoncons get(..., create_if_missing=true): like get, but missing object members along the whole path are created
    as empty objects. Returns (value, new document)."""
    created = [] if created is None else created
    if not tokens:
        return doc, doc
    box = []

    def leaf(cur, t, k):
        if isinstance(cur, dict):
            if t in cur:
                box.append(cur[t])
                return cur
            created.append(k)
            out = dict(cur)
            out[t] = {}
            box.append(out[t])
            return out
        if isinstance(cur, list):
            box.append(cur[_index(t, len(cur), False, k)])
            return cur
        raise PointerError("not-a-container", k)
    newdoc = _update(doc, tokens, 0, leaf, True, created)
    return box[0], newdoc


# ------------------------------------------------------------------------------------------- flatten
def leaves(doc, prefix=()):
    """(tokens, value) for every scalar and every EMPTY container of the document, in document order."""
    if isinstance(doc, dict) and doc:
        for k, v in doc.items():
            yield from leaves(v, prefix + (k,))
    elif isinstance(doc, list) and doc:
        for i, v in enumerate(doc):
            yield from leaves(v, prefix + (str(i),))
    else:
        yield prefix, doc


def locations(doc, prefix=()):
    """tokens of every location of the document (the root first)."""
    yield prefix
    if isinstance(doc, dict):
        for k, v in doc.items():
            yield from locations(v, prefix + (k,))
    elif isinstance(doc, list):
        for i, v in enumerate(doc):
            yield from locations(v, prefix + (str(i),))


# ------------------------------------------------------------------------------------------- RFC 6902
def _member(op, name, kind_missing, want_str=True):
    if name not in op:
        raise PatchError(kind_missing)
    v = op[name]
    if want_str and not isinstance(v, str):
        raise PatchError("%s-not-a-string" % name)
    return v


def _ptr(s, what):
    try:
        return parse_pointer(s)
    except PointerError as e:
        raise PatchError("%s-%s" % (what, e.kind))


def apply_operation(doc, op):
    if not isinstance(op, dict):
        raise PatchError("element-not-an-object")
    name = _member(op, "op", "missing-op")
    if name not in OPS:
        raise PatchError("unknown-op")
    path = _ptr(_member(op, "path", "missing-path"), "path")
    try:
        if name == "add":
            if "value" not in op:
                raise PatchError("missing-value")
            return add(doc, path, op["value"])
        if name == "remove":
            if not path:
                raise Unspecified("remove-whole-document")
            return remove(doc, path)
        if name == "replace":
            if "value" not in op:
                raise PatchError("missing-value")
            get(doc, path)                      # "The target location MUST exist"
            return replace(doc, path, op["value"])
        if name in ("move", "copy"):
            frm = _ptr(_member(op, "from", "missing-from"), "from")
            try:
                value = get(doc, frm)           # "The 'from' location MUST exist"
            except PointerError as e:
                raise PatchError("%s/from/%s" % (name, e.kind))
            if name == "copy":
                return add(doc, path, value)
            if len(frm) < len(path) and path[:len(frm)] == frm:
                raise PatchError("move/from-is-proper-prefix-of-path")
            if not frm:
                raise Unspecified("move-whole-document")
            return add(remove(doc, frm), path, value)
        if name == "test":
            if "value" not in op:
                raise PatchError("missing-value")
            if not json_equal(get(doc, path), op["value"]):
                raise PatchError("test/not-equal")
            return doc
    except PointerError as e:
        raise PatchError("%s/%s" % (name, e.kind))
    raise AssertionError(name)


def apply_patch(doc, patch):
    """Returns the patched document; raises PatchError(kind, index of the failing operation) - in which case, per
    RFC 6902 sec. 5 / RFC 5789, the target must be left as it was - or Unspecified."""
    if not isinstance(patch, list):
        raise PatchError("patch-not-an-array", -1)
    for i, op in enumerate(patch):
        try:
            doc = apply_operation(doc, op)
        except (PatchError, Unspecified) as e:
            e.index = i
            raise
    return doc


def load_json_unique(text):
    """Parses JSON text, refusing objects with duplicate member names (RFC 6902 A.13)."""
    import json

    def hook(pairs):
        d = {}
        for k, v in pairs:
            if k in d:
                raise PatchError("duplicate-member")
            d[k] = v
        return d
    return json.loads(text, object_pairs_hook=hook)
