"""Reference BSON codec (bsonspec.org version 1.1), from the specification only.

decode(data, max_depth=1024) -> rv.Result      (top level is always a document -> ("map", ...))
encode(value, rng=None, variety=0.0) -> bytes
gen_value(rng, depth=3, jsonlike=True) -> RV

illformed reasons: truncated, bad-doc-length, missing-terminator, bad-cstring, bad-string-length,
  bad-binary-length, bad-cws-length, bad-type, bad-bool, invalid-utf8, nesting
encoding features : int32, int64, bson-array-bad-keys, binary-subtype:<n>, plus rv.classify's.

How lengths are policed (everything little-endian):
  * top level: fewer than 4 bytes, or fewer bytes than the declared int32 length -> "truncated"
    (so every strict prefix of a valid document is "truncated"); declared length < 5 ->
    "bad-doc-length".  Bytes beyond the declared length are trailing data (not an error).
  * inside a document nothing may cross the position of its terminator byte: a fixed-size
    payload / int32 that would, a nested document whose declared length is < 5 or overruns, or
    a 0x00 type byte before the declared end -> "bad-doc-length"; a cstring with no NUL before
    the end -> "bad-cstring"; a string whose length is < 1, overruns, or whose last byte is not
    NUL -> "bad-string-length"; the byte at the declared end not 0x00 -> "missing-terminator".
  Errors are reported in stream order (first offending construct).

Values: double->("float",bits,64) string->("text",b) document->("map",..) array->("array",..)
  bool null int32/int64->("int",n) undefined(0x06)->("undefined",) and ("bson", kind, payload):
  binary:(subtype,bytes) [all subtypes, subtype 2's inner length kept raw]  objectid:bytes12
  datetime:int_ms  regex:(pattern,options)  dbpointer:(ns_bytes,bytes12)  code:bytes
  symbol:bytes  code_w_scope:(code_bytes, ("map",..))  timestamp:uint64  decimal128:bytes16
  minkey:None  maxkey:None
"""
import struct

try:
    from . import rv
except ImportError:
    import rv

Illformed = rv.Illformed
_i32 = struct.Struct("<i")


# =========================================================================== decoder

class _Dec:
    def __init__(self, data, max_depth):
        self.d = bytes(data)
        self.p = 0                      # used for error offsets / consumed
        self.max_depth = max_depth
        self.feats = set()

    def pos(self):
        return self.p

    def need(self, q, k, end):
        """k payload bytes at q must lie before the enclosing document's terminator."""
        self.p = q
        if q + k > end:
            raise Illformed("bad-doc-length")
        return q + k

    def int(self, q, k, end, signed=True):
        nq = self.need(q, k, end)
        return int.from_bytes(self.d[q:nq], "little", signed=signed), nq

    def cstring(self, q, end):
        self.p = q
        z = self.d.find(0, q, end)
        if z < 0:
            raise Illformed("bad-cstring")
        b = self.d[q:z]
        if not rv.utf8_valid(b):
            raise Illformed("invalid-utf8")
        return b, z + 1

    def string(self, q, end):
        """int32 length (counting the trailing NUL), bytes, NUL.  Embedded NULs are legal."""
        n, q = self.int(q, 4, end)
        if n < 1 or q + n > end or self.d[q + n - 1] != 0:
            raise Illformed("bad-string-length")
        b = self.d[q:q + n - 1]
        if not rv.utf8_valid(b):
            raise Illformed("invalid-utf8")
        return b, q + n

    def document(self, p, limit, depth):
        """Document starting at p that must end at or before `limit`.  -> (pairs, end_pos)"""
        if depth > self.max_depth:
            self.p = p
            raise Illformed("nesting")
        d = self.d
        total, q = self.int(p, 4, limit)
        if total < 5 or p + total > limit:
            raise Illformed("bad-doc-length")
        end = p + total - 1             # index of this document's terminator byte
        pairs = []
        while True:
            self.p = q
            if q == end:
                if d[end] != 0:
                    raise Illformed("missing-terminator")
                break
            t = d[q]
            if t == 0:                  # terminator earlier than the declared length says
                raise Illformed("bad-doc-length")
            name, q = self.cstring(q + 1, end)
            v, q = self.element(t, q, end, depth)
            pairs.append((("text", name), v))
        self.p = end + 1
        return pairs, end + 1

    def element(self, t, q, end, depth):
        d = self.d
        if t == 0x01:
            n, q = self.int(q, 8, end, False)
            return ("float", n, 64), q
        if t == 0x02:
            b, q = self.string(q, end)
            return ("text", b), q
        if t == 0x03:
            pairs, q = self.document(q, end, depth + 1)
            return ("map", pairs), q
        if t == 0x04:
            pairs, q = self.document(q, end, depth + 1)
            if any(k[1] != b"%d" % i for i, (k, _) in enumerate(pairs)):
                self.feats.add("bson-array-bad-keys")
            return ("array", [v for _, v in pairs]), q
        if t == 0x05:
            n, q = self.int(q, 4, end)
            if n < 0 or q + 1 + n > end:
                raise Illformed("bad-binary-length")
            self.feats.add("binary-subtype:%d" % d[q])
            return ("bson", "binary", (d[q], d[q + 1:q + 1 + n])), q + 1 + n
        if t == 0x06:
            return ("undefined",), q
        if t == 0x07:
            nq = self.need(q, 12, end)
            return ("bson", "objectid", d[q:nq]), nq
        if t == 0x08:
            nq = self.need(q, 1, end)
            if d[q] > 1:
                raise Illformed("bad-bool")
            return ("bool", d[q] == 1), nq
        if t == 0x09:
            n, q = self.int(q, 8, end)
            return ("bson", "datetime", n), q
        if t == 0x0A:
            return ("null",), q
        if t == 0x0B:
            pat, q = self.cstring(q, end)
            opt, q = self.cstring(q, end)
            return ("bson", "regex", (pat, opt)), q
        if t == 0x0C:
            ns, q = self.string(q, end)
            nq = self.need(q, 12, end)
            return ("bson", "dbpointer", (ns, d[q:nq])), nq
        if t in (0x0D, 0x0E):
            b, q = self.string(q, end)
            return ("bson", "code" if t == 0x0D else "symbol", b), q
        if t == 0x0F:
            # int32 total (covers itself, the string and the scope document)
            start = q
            total, q = self.int(q, 4, end)
            if total < 4 + 5 + 5 or start + total > end:
                raise Illformed("bad-cws-length")
            code, q = self.string(q, start + total)
            scope, q = self.document(q, start + total, depth + 1)
            if q != start + total:
                self.p = q
                raise Illformed("bad-cws-length")
            return ("bson", "code_w_scope", (code, ("map", scope))), q
        if t == 0x10:
            n, q = self.int(q, 4, end)
            self.feats.add("int32")
            return ("int", n), q
        if t == 0x11:
            n, q = self.int(q, 8, end, False)
            return ("bson", "timestamp", n), q
        if t == 0x12:
            n, q = self.int(q, 8, end)
            self.feats.add("int64")
            return ("int", n), q
        if t == 0x13:
            nq = self.need(q, 16, end)
            return ("bson", "decimal128", d[q:nq]), nq
        if t == 0xFF:
            return ("bson", "minkey", None), q
        if t == 0x7F:
            return ("bson", "maxkey", None), q
        self.p = q
        raise Illformed("bad-type")

    def top(self):
        d = self.d
        if len(d) < 4:
            self.p = len(d)
            raise Illformed("truncated")
        total = _i32.unpack_from(d, 0)[0]
        if total < 5:
            raise Illformed("bad-doc-length")
        if total > len(d):
            self.p = len(d)
            raise Illformed("truncated")
        pairs, _ = self.document(0, total, 1)
        return ("map", pairs)


def decode(data, max_depth=1024):
    d = _Dec(data, max_depth)
    return rv.run(d, d.top)


# =========================================================================== encoder

def _cstr(b, what):
    if 0 in b:
        raise ValueError("BSON %s may not contain NUL" % what)
    if not rv.utf8_valid(b):
        raise ValueError("BSON %s is not valid UTF-8" % what)
    return b + b"\x00"


def _str(b):
    if not rv.utf8_valid(b):
        raise ValueError("text is not valid UTF-8")
    return _i32.pack(len(b) + 1) + b + b"\x00"


def _fixed(b, n, what):
    if len(b) != n:
        raise ValueError("BSON %s must be %d bytes" % (what, n))
    return bytes(b)


class _Enc:
    def __init__(self, rng, variety):
        self.rng = rng
        self.variety = variety if rng is not None else 0.0

    def flip(self):
        return self.variety > 0 and self.rng.random() < self.variety

    def document(self, pairs):
        body = bytearray()
        for k, v in pairs:
            if k[0] != "text":
                raise ValueError("BSON element names must be text")
            t, payload = self.element(v)
            body.append(t)
            body += _cstr(k[1], "element name")
            body += payload
        if len(body) + 5 > 0x7FFFFFFF:
            raise ValueError("BSON document too large")
        return _i32.pack(len(body) + 5) + bytes(body) + b"\x00"

    def element(self, v):
        """-> (type byte, payload bytes)"""
        k = v[0]
        if k == "int":
            n = v[1]
            if -(1 << 31) <= n < 1 << 31 and not self.flip():
                return 0x10, n.to_bytes(4, "little", signed=True)
            if -(1 << 63) <= n < 1 << 63:
                return 0x12, n.to_bytes(8, "little", signed=True)
            raise ValueError("BSON integer out of int64 range: %d" % n)
        if k == "float":
            if v[2] != 64 or not 0 <= v[1] < 1 << 64:
                raise ValueError("BSON doubles are 64-bit")
            return 0x01, v[1].to_bytes(8, "little")
        if k == "text":
            return 0x02, _str(v[1])
        if k == "map":
            return 0x03, self.document(v[1])
        if k == "array":
            return 0x04, self.document([(("text", b"%d" % i), x) for i, x in enumerate(v[1])])
        if k == "bytes":                 # convenience: generic binary; decodes as ("bson","binary",(0,b))
            return 0x05, _i32.pack(len(v[1])) + b"\x00" + v[1]
        if k == "bool":
            return 0x08, b"\x01" if v[1] else b"\x00"
        if k == "null":
            return 0x0A, b""
        if k == "undefined":
            return 0x06, b""
        if k != "bson":
            raise ValueError("BSON cannot express %r" % (k,))
        kind, p = v[1], v[2]
        if kind == "binary":
            if not 0 <= p[0] <= 255:
                raise ValueError("bad binary subtype")
            return 0x05, _i32.pack(len(p[1])) + bytes([p[0]]) + p[1]
        if kind == "objectid":
            return 0x07, _fixed(p, 12, "objectid")
        if kind == "datetime":
            if not -(1 << 63) <= p < 1 << 63:
                raise ValueError("datetime out of int64 range")
            return 0x09, p.to_bytes(8, "little", signed=True)
        if kind == "regex":
            return 0x0B, _cstr(p[0], "regex pattern") + _cstr(p[1], "regex options")
        if kind == "dbpointer":
            return 0x0C, _str(p[0]) + _fixed(p[1], 12, "dbpointer id")
        if kind == "code":
            return 0x0D, _str(p)
        if kind == "symbol":
            return 0x0E, _str(p)
        if kind == "code_w_scope":
            if p[1][0] != "map":
                raise ValueError("code_w_scope scope must be a map")
            inner = _str(p[0]) + self.document(p[1][1])
            return 0x0F, _i32.pack(len(inner) + 4) + inner
        if kind == "timestamp":
            if not 0 <= p < 1 << 64:
                raise ValueError("timestamp out of uint64 range")
            return 0x11, p.to_bytes(8, "little")
        if kind == "decimal128":
            return 0x13, _fixed(p, 16, "decimal128")
        if kind == "minkey":
            return 0xFF, b""
        if kind == "maxkey":
            return 0x7F, b""
        raise ValueError("unknown bson kind %r" % (kind,))


def encode(value, rng=None, variety=0.0):
    """BSON has a single spelling; the only choice is int64 for an int that would fit int32."""
    if value[0] != "map":
        raise ValueError("BSON top level must be a document (map)")
    return _Enc(rng, variety).document(value[1])


# =========================================================================== generator

def _gen_special(rng, depth):
    k = rng.randrange(13)
    if k == 0:
        return ("bson", "binary", (rng.choice((0, 0, 1, 2, 3, 4, 5, 6, 0x80, 0xFF)), rv.gen_bytes(rng)))
    if k == 1:
        return ("bson", "objectid", rv.gen_bytes(rng, 12))
    if k == 2:
        return ("bson", "datetime", rv.gen_int(rng, -(1 << 63), (1 << 63) - 1))
    if k == 3:
        return ("bson", "regex", (rv.gen_text_bytes(rng, False, rng.choice((0, 1, 5))), rng.choice((b"", b"i", b"imsx"))))
    if k == 4:
        return ("bson", "dbpointer", (rv.gen_text_bytes(rng, True, rng.choice((0, 3))), rv.gen_bytes(rng, 12)))
    if k == 5:
        return ("bson", "code", rv.gen_text_bytes(rng))
    if k == 6:
        return ("bson", "symbol", rv.gen_text_bytes(rng))
    if k == 7:
        return ("bson", "code_w_scope", (rv.gen_text_bytes(rng, True, rng.choice((0, 4))), _gen_doc(rng, min(depth, 1) - 1, False)))
    if k == 8:
        return ("bson", "timestamp", rv.gen_int(rng, 0, (1 << 64) - 1))
    if k == 9:
        return ("bson", "decimal128", rv.gen_bytes(rng, 16))
    if k == 10:
        return ("bson", "minkey", None)
    if k == 11:
        return ("bson", "maxkey", None)
    return ("undefined",)


def _gen_elem(rng, depth, jsonlike):
    if depth > 0 and rng.random() < 0.35:
        if rng.random() < 0.5:
            return _gen_doc(rng, depth - 1, jsonlike)
        n, big = rv.gen_size(rng)
        sub = 0 if big else depth - 1
        return ("array", [_gen_elem(rng, sub, jsonlike) for _ in range(n)])
    r = rng.random()
    if r < 0.35:
        return ("int", rv.gen_int(rng, -(1 << 63), (1 << 63) - 1))
    if r < 0.50:
        return rv.gen_float(rng, (64,))
    if r < 0.72:
        return ("text", rv.gen_text_bytes(rng))
    if not jsonlike and r < 0.90:
        return _gen_special(rng, depth)
    return rng.choice((("null",), ("bool", True), ("bool", False)))


def _gen_doc(rng, depth, jsonlike):
    """A document whose elements may nest `depth` further levels."""
    n, big = rv.gen_size(rng)
    sub = 0 if big else depth
    return ("map", [(rv.gen_key_text(rng, allow_nul=False), _gen_elem(rng, sub, jsonlike)) for _ in range(n)])


def gen_value(rng, depth=3, jsonlike=True):
    """Always a document.  jsonlike=False adds undefined and every ("bson", ...) scalar kind."""
    return _gen_doc(rng, max(depth - 1, 0), jsonlike)
