"""Independent reference interpreter for classic JMESPath (jmespath.org spec).

Pure Python 3.11, standard library only.  Written from the specification
(grammar, projections, built-in functions); no community extensions
(no let-expressions, no arithmetic, no string slicing, no new functions).

Public API
----------
    class JMESPathError(Exception)      .kind in ERROR_KINDS
    compile(expr: str) -> Node          raises JMESPathError(kind="syntax")
    search(expr_or_ast, data) -> value  raises JMESPathError (any kind)
    contains_zero_step_slice(ast) -> bool    helper (see "Resolved ambiguities")
    precedence_sensitive(expr: str) -> set   subset of {"not", "dot-star"}: does the
                                             meaning depend on a disputed precedence
    function_names(ast) -> set[str]          helper: names of all called functions
    static_function_errors(ast) -> list      helper: [(kind, name)] unknown-function /
                                             invalid-arity detectable without evaluating
    FUNCTIONS                                dict name -> _FunctionSpec
    gen_document(rng, depth=3) -> value
    gen_expression(rng, doc, depth=4, allow_ambiguous_not=False) -> str

JSON <-> Python mapping: object=dict (insertion order is preserved and is the
order used by keys(), values(), `*` and merge()), array=list, string=str,
number=int|float (bool is NOT a number), true/false=bool, null=None.
`data` is never mutated; results may share structure with `data`.

Resolved ambiguities (all documented for the user of this oracle)
-----------------------------------------------------------------
 * Precedence follows the de-facto reference table:
     pipe(1) < ||(2) < &&(3) < comparators(5) < flatten(9) < star(20)
     < filter(21) < dot(40) < not(45) < lbrace(50) < lbracket(55) < lparen(60).
   Consequence: `!a.b` parses as `(!a).b` but `!a[0]` as `!(a[0])`, and
   `!a == b` as `(!a) == b`.  Comparators are left-associative.
 * The right-hand side of EVERY projection (incl. `a.*`) extends over the whole
   following chain of `.x` / `[n]` / `[?..]` (binding power 20/21), i.e.
   `a.*.b.c` projects `b.c` onto every value -> [..].  (jmespath.py / jmespath.js
   parse the RHS of `lhs.*` with binding power 40 and evaluate `a.*.b.c` as
   `(a.*.b).c` -> null.  No compliance case distinguishes the two; see
   precedence_sensitive().)
 * Every projection drops null results, including the "bare" ones: `[*]`, `[]`,
   `*`, `[:]` without right-hand side remove null elements
   (`[1, null][*]` -> [1], `[[1], null][]` -> [1]).
 * `x[*][]`, `x.*[]`, `x[?f][]`: flatten (binding power 9) terminates the
   preceding projection and flattens its RESULT.
 * `&expr` is only accepted directly as a function argument (grammar rule
   function-arg = expression / expression-type); anywhere else: syntax error.
 * A function name must be an unquoted identifier directly followed by `(`.
 * Back-tick literals must contain valid JSON (after un-escaping "\\`");
   the deprecated "unquoted string" literal form (`foo`) is a syntax error.
   NaN/Infinity are rejected.  Surrounding JSON whitespace is allowed.
 * Raw strings: only "\\'" is an escape; every other backslash is kept verbatim
   together with the character following it (so '\\\\' is two backslashes).
 * Sub-expressions do not short-circuit before evaluating the right side: the
   right side is evaluated with current node null.  For identifiers, multi-selects,
   wildcards, indices this gives null; for a function call it means the function
   is evaluated with @ = null (e.g. `missing.to_string(@)` -> "null",
   `missing.length(@)` -> invalid-type).
 * Functions are resolved at evaluation time: an unknown function / wrong arity in
   a branch that is never evaluated (e.g. right of `||` when left is truthy, RHS
   of a projection over an empty array) raises nothing.  When a call IS
   evaluated the order of checks is: unknown-function, invalid-arity, then the
   arguments are evaluated left to right (errors inside propagate), then argument
   types are checked left to right.
 * An expression reference passed where a value is expected (even `any`) is
   invalid-type; a value passed where an expref is expected is invalid-type.
 * Slice step 0 raises invalid-value only when the slice is actually applied to an
   array (a slice of a non-array is null without error).  Use
   contains_zero_step_slice(ast) to detect the static condition.
 * contains(string, non-string) -> false (no error).
 * max_by/min_by return the FIRST element attaining the extreme key; max/min of
   equal numbers of different representation (1 vs 1.0) return the first.
 * sort/sort_by/max/min on strings compare by Unicode code point.
 * to_string of non-strings: compact JSON (separators "," and ":"), non-ASCII
   characters emitted verbatim (not \\u-escaped), Python float repr (1.0 -> "1.0").
 * to_number(string): the string must match the JSON number grammar exactly
   (no surrounding whitespace, no "+", no hex, no leading zeros); integers give
   int, anything with fraction/exponent gives float; non-finite -> null.
 * multi-select-hash / JSON literal objects with duplicate keys: the last value
   wins, at the position of the first occurrence (the generator never emits
   duplicate keys).
 * merge(): keys keep first-seen position, later objects overwrite values.
 * merge()/not_null() with zero arguments: invalid-arity (variadic functions need
   at least one argument).
 * length(string) counts Unicode code points; reverse(string) reverses code points.
 * Ordering comparators on anything but two numbers give null (strings too).
"""
from __future__ import annotations

import json
import math
import random
import re

__all__ = [
    "JMESPathError", "ERROR_KINDS", "Node", "compile", "search",
    "contains_zero_step_slice", "function_names", "static_function_errors",
    "precedence_sensitive", "FUNCTIONS",
    "gen_document", "gen_expression",
]

ERROR_KINDS = ("syntax", "invalid-type", "invalid-arity", "unknown-function",
               "invalid-value")


class JMESPathError(Exception):
    def __init__(self, kind, message=""):
        assert kind in ERROR_KINDS, kind
        super().__init__("%s: %s" % (kind, message) if message else kind)
        self.kind = kind
        self.message = message


# ---------------------------------------------------------------------------
# Lexer
# ---------------------------------------------------------------------------

_WS = " \t\n\r"
_ID_START = "abcdefghijklmnopqrstuvwxyzABCDEFGHIJKLMNOPQRSTUVWXYZ_"
_ID_CONT = _ID_START + "0123456789"
_DIGITS = "0123456789"

_SIMPLE = {
    ".": "dot", "*": "star", "@": "current", "]": "rbracket", "{": "lbrace",
    "}": "rbrace", "(": "lparen", ")": "rparen", ",": "comma", ":": "colon",
}


def _syntax(msg, pos=None):
    if pos is not None:
        msg = "%s (at offset %d)" % (msg, pos)
    return JMESPathError("syntax", msg)


def _reject_constant(name):
    raise ValueError("non-JSON constant " + name)


def _find_delimited(expr, start, delim):
    """expr[start] is the opening delimiter.  Returns index of the closing one.
    A backslash always protects the character following it."""
    i = start + 1
    n = len(expr)
    while i < n:
        c = expr[i]
        if c == "\\":
            i += 2
            continue
        if c == delim:
            return i
        i += 1
    raise _syntax("unterminated %s...%s" % (delim, delim), start)


def _unescape_only(body, delim):
    """Replace backslash+delim by delim; keep every other backslash pair."""
    if "\\" not in body:
        return body
    out = []
    i = 0
    n = len(body)
    while i < n:
        c = body[i]
        if c == "\\" and i + 1 < n:
            d = body[i + 1]
            if d == delim:
                out.append(delim)
            else:
                out.append(c)
                out.append(d)
            i += 2
        else:
            out.append(c)
            i += 1
    return "".join(out)


def _tokenize(expr):
    if not isinstance(expr, str):
        raise TypeError("expression must be a str")
    toks = []
    i = 0
    n = len(expr)
    while i < n:
        c = expr[i]
        if c in _WS:
            i += 1
        elif c in _ID_START:
            j = i + 1
            while j < n and expr[j] in _ID_CONT:
                j += 1
            toks.append(("unquoted_identifier", expr[i:j], i))
            i = j
        elif c in _SIMPLE:
            toks.append((_SIMPLE[c], c, i))
            i += 1
        elif c == "[":
            if i + 1 < n and expr[i + 1] == "?":
                toks.append(("filter", "[?", i))
                i += 2
            elif i + 1 < n and expr[i + 1] == "]":
                toks.append(("flatten", "[]", i))
                i += 2
            else:
                toks.append(("lbracket", "[", i))
                i += 1
        elif c == "-" or c in _DIGITS:
            j = i + 1
            while j < n and expr[j] in _DIGITS:
                j += 1
            text = expr[i:j]
            if text == "-":
                raise _syntax("'-' must be followed by digits", i)
            toks.append(("number", int(text), i))
            i = j
        elif c == '"':
            end = _find_delimited(expr, i, '"')
            try:
                val = json.loads(expr[i:end + 1])
            except ValueError as e:
                raise _syntax("bad quoted identifier: %s" % e, i)
            if not isinstance(val, str):
                raise _syntax("bad quoted identifier", i)
            toks.append(("quoted_identifier", val, i))
            i = end + 1
        elif c == "'":
            end = _find_delimited(expr, i, "'")
            toks.append(("literal", _unescape_only(expr[i + 1:end], "'"), i))
            i = end + 1
        elif c == "`":
            end = _find_delimited(expr, i, "`")
            body = _unescape_only(expr[i + 1:end], "`")
            try:
                val = json.loads(body, parse_constant=_reject_constant)
            except (ValueError, RecursionError) as e:
                raise _syntax("literal is not valid JSON: %s" % e, i)
            toks.append(("literal", val, i))
            i = end + 1
        elif c == "|":
            if i + 1 < n and expr[i + 1] == "|":
                toks.append(("or", "||", i))
                i += 2
            else:
                toks.append(("pipe", "|", i))
                i += 1
        elif c == "&":
            if i + 1 < n and expr[i + 1] == "&":
                toks.append(("and", "&&", i))
                i += 2
            else:
                toks.append(("expref", "&", i))
                i += 1
        elif c == "=":
            if i + 1 < n and expr[i + 1] == "=":
                toks.append(("eq", "==", i))
                i += 2
            else:
                raise _syntax("'=' is not an operator (did you mean '=='?)", i)
        elif c == "!":
            if i + 1 < n and expr[i + 1] == "=":
                toks.append(("ne", "!=", i))
                i += 2
            else:
                toks.append(("not", "!", i))
                i += 1
        elif c == "<":
            if i + 1 < n and expr[i + 1] == "=":
                toks.append(("lte", "<=", i))
                i += 2
            else:
                toks.append(("lt", "<", i))
                i += 1
        elif c == ">":
            if i + 1 < n and expr[i + 1] == "=":
                toks.append(("gte", ">=", i))
                i += 2
            else:
                toks.append(("gt", ">", i))
                i += 1
        else:
            raise _syntax("unexpected character %r" % c, i)
    toks.append(("eof", "", n))
    return toks


# ---------------------------------------------------------------------------
# AST
# ---------------------------------------------------------------------------

class Node:
    """AST node.  kind is one of:
      field(value=name)  literal(value)  identity  current
      index(value=int)   slice(value=(start,stop,step))
      index_expression(left, index|slice)
      subexpression(left, right)   pipe(left, right)
      projection(left, right)  value_projection(left, right)
      filter_projection(left, right, condition)   flatten(child)
      comparator(value=op; left, right)  or  and  not
      multi_select_list(children)  multi_select_hash(value=[keys]; children)
      function(value=name; args)   expref(child)
    """
    __slots__ = ("kind", "value", "children")

    def __init__(self, kind, value=None, children=()):
        self.kind = kind
        self.value = value
        self.children = tuple(children)

    def __repr__(self):
        parts = [self.kind]
        if self.value is not None or self.kind == "literal":
            parts.append(repr(self.value))
        parts.extend(repr(c) for c in self.children)
        return "(" + " ".join(parts) + ")"

    def walk(self):
        yield self
        for c in self.children:
            yield from c.walk()


_IDENTITY = Node("identity")

_BP = {
    "eof": 0, "unquoted_identifier": 0, "quoted_identifier": 0, "literal": 0,
    "rbracket": 0, "rparen": 0, "comma": 0, "rbrace": 0, "number": 0,
    "current": 0, "expref": 0, "colon": 0,
    "pipe": 1, "or": 2, "and": 3,
    "eq": 5, "gt": 5, "lt": 5, "gte": 5, "lte": 5, "ne": 5,
    "flatten": 9,
    "star": 20, "filter": 21, "dot": 40, "not": 45, "lbrace": 50,
    "lbracket": 55, "lparen": 60,
}
_PROJECTION_STOP = 10
_COMPARATORS = ("eq", "ne", "lt", "lte", "gt", "gte")
_MAX_NESTING = 200


class _Parser:
    def __init__(self, expr, not_bp=None, dotstar_bp=None):
        self.toks = _tokenize(expr)
        self.i = 0
        self.depth = 0
        # alternative binding powers, only used by precedence_sensitive()
        self.not_bp = _BP["not"] if not_bp is None else not_bp
        self.dotstar_bp = _BP["star"] if dotstar_bp is None else dotstar_bp

    # token helpers
    def cur(self):
        return self.toks[self.i][0]

    def peek(self, k):
        j = min(self.i + k, len(self.toks) - 1)
        return self.toks[j][0]

    def advance(self):
        t = self.toks[self.i]
        if self.i < len(self.toks) - 1:
            self.i += 1
        return t

    def err(self, msg=None):
        t = self.toks[self.i]
        what = "end of expression" if t[0] == "eof" else "token %s %r" % (t[0], t[1])
        return _syntax((msg + ": " if msg else "") + "unexpected " + what, t[2])

    def match(self, ttype):
        if self.cur() != ttype:
            raise self.err("expected " + ttype)
        return self.advance()

    # entry
    def parse(self):
        node = self.expression(0)
        if self.cur() != "eof":
            raise self.err()
        return node

    def expression(self, rbp):
        self.depth += 1
        if self.depth > _MAX_NESTING:
            raise _syntax("expression nested too deeply")
        try:
            left = self.nud()
            while rbp < _BP[self.cur()]:
                left = self.led(left)
            return left
        finally:
            self.depth -= 1

    # ---- prefix position
    def nud(self):
        t = self.advance()
        tt = t[0]
        if tt == "unquoted_identifier":
            if self.cur() == "lparen":
                return self.function_call(t[1])
            return Node("field", t[1])
        if tt == "quoted_identifier":
            if self.cur() == "lparen":
                raise self.err("quoted identifier cannot be a function name")
            return Node("field", t[1])
        if tt == "literal":
            return Node("literal", t[1])
        if tt == "current":
            return Node("current")
        if tt == "star":
            return Node("value_projection", None,
                        (_IDENTITY, self.projection_rhs(_BP["star"])))
        if tt == "filter":
            return self.filter_rest(_IDENTITY)
        if tt == "flatten":
            return Node("projection", None,
                        (Node("flatten", None, (_IDENTITY,)),
                         self.projection_rhs(_BP["flatten"])))
        if tt == "lbrace":
            return self.multi_select_hash()
        if tt == "lparen":
            e = self.expression(0)
            self.match("rparen")
            return e
        if tt == "not":
            return Node("not", None, (self.expression(self.not_bp),))
        if tt == "lbracket":
            c = self.cur()
            if c == "number" or c == "colon":
                return self.bracket_index(_IDENTITY)
            if c == "star" and self.peek(1) == "rbracket":
                self.advance()
                self.advance()
                return Node("projection", None,
                            (_IDENTITY, self.projection_rhs(_BP["star"])))
            return self.multi_select_list()
        # step back so that the error message points at the offending token
        self.i = self.toks.index(t)
        raise self.err()

    # ---- infix position
    def led(self, left):
        t = self.advance()
        tt = t[0]
        if tt == "dot":
            if self.cur() == "star":
                self.advance()
                # NB: star binding power, so that a.*.b.c projects "b.c"
                return Node("value_projection", None,
                            (left, self.projection_rhs(self.dotstar_bp)))
            return Node("subexpression", None, (left, self.dot_rhs(_BP["dot"])))
        if tt == "pipe":
            return Node("pipe", None, (left, self.expression(_BP["pipe"])))
        if tt == "or":
            return Node("or", None, (left, self.expression(_BP["or"])))
        if tt == "and":
            return Node("and", None, (left, self.expression(_BP["and"])))
        if tt in _COMPARATORS:
            return Node("comparator", tt, (left, self.expression(_BP[tt])))
        if tt == "flatten":
            return Node("projection", None,
                        (Node("flatten", None, (left,)),
                         self.projection_rhs(_BP["flatten"])))
        if tt == "filter":
            return self.filter_rest(left)
        if tt == "lbracket":
            c = self.cur()
            if c == "number" or c == "colon":
                return self.bracket_index(left)
            self.match("star")
            self.match("rbracket")
            return Node("projection", None,
                        (left, self.projection_rhs(_BP["star"])))
        # star, not, lbrace, lparen have a binding power but no infix meaning
        self.i = self.toks.index(t)
        raise self.err()

    # ---- pieces
    def function_call(self, name):
        self.match("lparen")
        args = []
        if self.cur() != "rparen":
            while True:
                if self.cur() == "expref":
                    self.advance()
                    args.append(Node("expref", None, (self.expression(0),)))
                else:
                    args.append(self.expression(0))
                if self.cur() == "comma":
                    self.advance()
                    continue
                break
        self.match("rparen")
        return Node("function", name, args)

    def filter_rest(self, left):
        cond = self.expression(0)
        self.match("rbracket")
        if self.cur() == "flatten":
            right = _IDENTITY
        else:
            right = self.projection_rhs(_BP["filter"])
        return Node("filter_projection", None, (left, right, cond))

    def bracket_index(self, left):
        """After '[' with current token number or colon."""
        if self.cur() == "colon" or self.peek(1) == "colon":
            parts = [None, None, None]
            idx = 0
            while self.cur() != "rbracket":
                c = self.cur()
                if c == "colon":
                    idx += 1
                    if idx == 3:
                        raise self.err("too many colons in slice")
                    self.advance()
                elif c == "number":
                    if parts[idx] is not None:
                        raise self.err("expected ':' or ']' in slice")
                    parts[idx] = self.advance()[1]
                else:
                    raise self.err("expected number, ':' or ']' in slice")
            self.match("rbracket")
            sl = Node("slice", tuple(parts))
            return Node("projection", None,
                        (Node("index_expression", None, (left, sl)),
                         self.projection_rhs(_BP["star"])))
        num = self.match("number")[1]
        self.match("rbracket")
        return Node("index_expression", None, (left, Node("index", num)))

    def multi_select_list(self):
        items = []
        while True:
            items.append(self.expression(0))
            if self.cur() == "comma":
                self.advance()
                continue
            break
        self.match("rbracket")
        return Node("multi_select_list", None, items)

    def multi_select_hash(self):
        keys = []
        vals = []
        while True:
            if self.cur() not in ("unquoted_identifier", "quoted_identifier"):
                raise self.err("expected identifier as multi-select-hash key")
            keys.append(self.advance()[1])
            self.match("colon")
            vals.append(self.expression(0))
            if self.cur() == "comma":
                self.advance()
                continue
            break
        self.match("rbrace")
        return Node("multi_select_hash", keys, vals)

    def projection_rhs(self, bp):
        c = self.cur()
        if _BP[c] < _PROJECTION_STOP:
            return _IDENTITY
        if c == "lbracket" or c == "filter":
            return self.expression(bp)
        if c == "dot":
            self.advance()
            return self.dot_rhs(bp)
        raise self.err()

    def dot_rhs(self, bp):
        c = self.cur()
        if c in ("unquoted_identifier", "quoted_identifier", "star"):
            return self.expression(bp)
        if c == "lbracket":
            self.advance()
            return self.multi_select_list()
        if c == "lbrace":
            self.advance()
            return self.multi_select_hash()
        raise self.err("expected identifier, '*', '[' or '{' after '.'")


def compile(expr):  # noqa: A001  (API name mandated)
    """Parse a JMESPath expression; raises JMESPathError(kind='syntax')."""
    try:
        return _Parser(expr).parse()
    except RecursionError:
        raise _syntax("expression nested too deeply")


def precedence_sensitive(expr):
    """Which reference-precedence decisions does the meaning of expr depend on?

    Returns a set with any of:
      "not"      - some `!x` is followed by a comparator, `[]`, `[?`, `.`, ...;
                   an implementation giving `!` a lower precedence than those
                   (e.g. reading `!a.b` as `!(a.b)`, `!a == b` as `!(a == b)`)
                   parses the expression differently;
      "dot-star" - some `lhs.*` is followed by a chain such as `.b.c` / `.b[?f]`
                   where an implementation parsing the right-hand side of `.*`
                   with the binding power of `.` (40, as jmespath.py/jmespath.js
                   do) would apply the tail to the projection RESULT instead of
                   projecting it.
    Useful to classify differential-testing mismatches."""
    base = repr(compile(expr))
    out = set()
    try:
        if repr(_Parser(expr, not_bp=4).parse()) != base:
            out.add("not")
    except JMESPathError:
        out.add("not")
    try:
        if repr(_Parser(expr, dotstar_bp=_BP["dot"]).parse()) != base:
            out.add("dot-star")
    except JMESPathError:
        out.add("dot-star")
    return out


def contains_zero_step_slice(ast):
    return any(n.kind == "slice" and n.value[2] == 0 for n in ast.walk())


def function_names(ast):
    return {n.value for n in ast.walk() if n.kind == "function"}


def static_function_errors(ast):
    """[(kind, function-name)] for every call in the AST whose name is unknown
    ("unknown-function") or whose argument count is wrong ("invalid-arity"),
    whether or not search() would ever evaluate that call.  An implementation
    that resolves functions at compile time reports these eagerly."""
    out = []
    for n in ast.walk():
        if n.kind != "function":
            continue
        spec = FUNCTIONS.get(n.value)
        if spec is None:
            out.append(("unknown-function", n.value))
        elif (len(n.children) < len(spec.params)) if spec.variadic \
                else (len(n.children) != len(spec.params)):
            out.append(("invalid-arity", n.value))
    return out


# ---------------------------------------------------------------------------
# Values
# ---------------------------------------------------------------------------

def _is_number(x):
    return isinstance(x, (int, float)) and not isinstance(x, bool)


def _truthy(x):
    if x is None or x is False:
        return False
    if isinstance(x, (str, list, dict)) and len(x) == 0:
        return False
    return True


def _type_name(x):
    if x is None:
        return "null"
    if isinstance(x, bool):
        return "boolean"
    if isinstance(x, (int, float)):
        return "number"
    if isinstance(x, str):
        return "string"
    if isinstance(x, list):
        return "array"
    if isinstance(x, dict):
        return "object"
    if isinstance(x, _Expref):
        return "expref"
    raise TypeError("not a JSON value: %r" % (x,))


def _equals(a, b):
    """Deep JSON equality: 1 == 1.0, true != 1, object key order irrelevant."""
    if isinstance(a, bool) or isinstance(b, bool):
        return isinstance(a, bool) and isinstance(b, bool) and a == b
    if a is None or b is None:
        return a is None and b is None
    if isinstance(a, (int, float)):
        return isinstance(b, (int, float)) and a == b
    if isinstance(a, str):
        return isinstance(b, str) and a == b
    if isinstance(a, list):
        if not isinstance(b, list) or len(a) != len(b):
            return False
        return all(_equals(x, y) for x, y in zip(a, b))
    if isinstance(a, dict):
        if not isinstance(b, dict) or len(a) != len(b):
            return False
        for k, v in a.items():
            if k not in b or not _equals(v, b[k]):
                return False
        return True
    return False


def _slice(lst, start, stop, step):
    """Slice per the JMESPath specification (written out, not using Python's)."""
    n = len(lst)
    if step is None:
        step = 1
    if step == 0:
        raise JMESPathError("invalid-value", "slice step cannot be 0")

    def cap(v, backwards):
        if v < 0:
            v += n
            if v < 0:
                v = -1 if backwards else 0
        elif v >= n:
            v = n - 1 if backwards else n
        return v

    back = step < 0
    if start is None:
        start = n - 1 if back else 0
    else:
        start = cap(start, back)
    if stop is None:
        stop = -1 if back else n
    else:
        stop = cap(stop, back)
    out = []
    i = start
    if back:
        while i > stop:
            out.append(lst[i])
            i += step
    else:
        while i < stop:
            out.append(lst[i])
            i += step
    return out


class _Expref:
    __slots__ = ("node",)

    def __init__(self, node):
        self.node = node

    def __call__(self, value):
        return _eval(self.node, value)


# ---------------------------------------------------------------------------
# Evaluation
# ---------------------------------------------------------------------------

def _eval(node, value):
    k = node.kind
    ch = node.children
    if k == "field":
        if isinstance(value, dict):
            return value.get(node.value)
        return None
    if k == "subexpression" or k == "pipe":
        return _eval(ch[1], _eval(ch[0], value))
    if k == "identity" or k == "current":
        return value
    if k == "literal":
        return node.value
    if k == "index_expression":
        base = _eval(ch[0], value)
        if not isinstance(base, list):
            return None
        sel = ch[1]
        if sel.kind == "index":
            i = sel.value
            n = len(base)
            if i < 0:
                i += n
            if 0 <= i < n:
                return base[i]
            return None
        return _slice(base, *sel.value)
    if k == "projection":
        base = _eval(ch[0], value)
        if not isinstance(base, list):
            return None
        out = []
        rhs = ch[1]
        for el in base:
            r = _eval(rhs, el)
            if r is not None:
                out.append(r)
        return out
    if k == "value_projection":
        base = _eval(ch[0], value)
        if not isinstance(base, dict):
            return None
        out = []
        rhs = ch[1]
        for el in base.values():
            r = _eval(rhs, el)
            if r is not None:
                out.append(r)
        return out
    if k == "filter_projection":
        base = _eval(ch[0], value)
        if not isinstance(base, list):
            return None
        out = []
        rhs = ch[1]
        cond = ch[2]
        for el in base:
            if _truthy(_eval(cond, el)):
                r = _eval(rhs, el)
                if r is not None:
                    out.append(r)
        return out
    if k == "flatten":
        base = _eval(ch[0], value)
        if not isinstance(base, list):
            return None
        out = []
        for el in base:
            if isinstance(el, list):
                out.extend(el)
            else:
                out.append(el)
        return out
    if k == "comparator":
        a = _eval(ch[0], value)
        b = _eval(ch[1], value)
        op = node.value
        if op == "eq":
            return _equals(a, b)
        if op == "ne":
            return not _equals(a, b)
        if not (_is_number(a) and _is_number(b)):
            return None
        if op == "lt":
            return a < b
        if op == "lte":
            return a <= b
        if op == "gt":
            return a > b
        return a >= b
    if k == "or":
        a = _eval(ch[0], value)
        if _truthy(a):
            return a
        return _eval(ch[1], value)
    if k == "and":
        a = _eval(ch[0], value)
        if not _truthy(a):
            return a
        return _eval(ch[1], value)
    if k == "not":
        return not _truthy(_eval(ch[0], value))
    if k == "multi_select_list":
        if value is None:
            return None
        return [_eval(c, value) for c in ch]
    if k == "multi_select_hash":
        if value is None:
            return None
        out = {}
        for key, c in zip(node.value, ch):
            out[key] = _eval(c, value)
        return out
    if k == "function":
        return _call(node, value)
    if k == "expref":
        return _Expref(ch[0])
    raise AssertionError("unknown node kind " + k)


def search(expr_or_ast, data):
    """Evaluate a JMESPath expression (str or compiled Node) against data."""
    ast = expr_or_ast if isinstance(expr_or_ast, Node) else compile(expr_or_ast)
    try:
        result = _eval(ast, data)
    except RecursionError:
        raise JMESPathError("invalid-value", "evaluation nested too deeply")
    if isinstance(result, _Expref):  # unreachable with the strict parser
        raise JMESPathError("invalid-type", "expression reference as result")
    return result


# ---------------------------------------------------------------------------
# Built-in functions
# ---------------------------------------------------------------------------

def _matches(arg, spec):
    """spec: any number string boolean array object null expref
             array-number array-string"""
    if spec == "expref":
        return isinstance(arg, _Expref)
    if isinstance(arg, _Expref):
        return False
    if spec == "any":
        return True
    if spec == "number":
        return _is_number(arg)
    if spec == "string":
        return isinstance(arg, str)
    if spec == "boolean":
        return isinstance(arg, bool)
    if spec == "array":
        return isinstance(arg, list)
    if spec == "object":
        return isinstance(arg, dict)
    if spec == "null":
        return arg is None
    if spec == "array-number":
        return isinstance(arg, list) and all(_is_number(x) for x in arg)
    if spec == "array-string":
        return isinstance(arg, list) and all(isinstance(x, str) for x in arg)
    raise AssertionError(spec)


class _FunctionSpec:
    __slots__ = ("name", "params", "variadic", "impl")

    def __init__(self, name, params, variadic, impl):
        self.name = name
        self.params = params      # list of tuples of allowed type specs
        self.variadic = variadic  # last param may repeat (>= len(params) args)
        self.impl = impl


FUNCTIONS = {}


def _builtin(name, *params, variadic=False):
    def deco(fn):
        FUNCTIONS[name] = _FunctionSpec(name, [tuple(p.split("|")) for p in params],
                                        variadic, fn)
        return fn
    return deco


def _call(node, value):
    name = node.value
    spec = FUNCTIONS.get(name)
    if spec is None:
        raise JMESPathError("unknown-function", name + "()")
    nargs = len(node.children)
    nparams = len(spec.params)
    if (nargs < nparams) if spec.variadic else (nargs != nparams):
        raise JMESPathError(
            "invalid-arity", "%s() takes %s%d argument(s), %d given"
            % (name, "at least " if spec.variadic else "", nparams, nargs))
    args = [_eval(a, value) for a in node.children]
    for idx, arg in enumerate(args):
        allowed = spec.params[min(idx, nparams - 1)]
        if not any(_matches(arg, s) for s in allowed):
            raise JMESPathError(
                "invalid-type", "%s() argument %d: expected %s, got %s"
                % (name, idx + 1, "|".join(allowed), _type_name(arg)))
    return spec.impl(*args)


def _keyed(fname, array, expref):
    """Apply expref to each element; keys must be all numbers or all strings."""
    keys = [expref(el) for el in array]
    if not keys:
        return keys
    if all(_is_number(x) for x in keys) or all(isinstance(x, str) for x in keys):
        return keys
    raise JMESPathError(
        "invalid-type", "%s(): expression must yield only numbers or only strings"
        % fname)


@_builtin("abs", "number")
def _f_abs(x):
    return abs(x)


@_builtin("avg", "array-number")
def _f_avg(a):
    if not a:
        return None
    return float(sum(a)) / len(a)


@_builtin("ceil", "number")
def _f_ceil(x):
    return x if isinstance(x, int) else math.ceil(x)


@_builtin("floor", "number")
def _f_floor(x):
    return x if isinstance(x, int) else math.floor(x)


@_builtin("contains", "array|string", "any")
def _f_contains(subject, item):
    if isinstance(subject, str):
        return isinstance(item, str) and item in subject
    return any(_equals(el, item) for el in subject)


@_builtin("ends_with", "string", "string")
def _f_ends_with(s, suffix):
    return s.endswith(suffix)


@_builtin("starts_with", "string", "string")
def _f_starts_with(s, prefix):
    return s.startswith(prefix)


@_builtin("join", "string", "array-string")
def _f_join(glue, a):
    return glue.join(a)


@_builtin("keys", "object")
def _f_keys(o):
    return list(o.keys())


@_builtin("values", "object")
def _f_values(o):
    return list(o.values())


@_builtin("length", "string|array|object")
def _f_length(x):
    return len(x)


@_builtin("map", "expref", "array")
def _f_map(expref, a):
    return [expref(el) for el in a]


def _extreme(a, keys, want_max):
    best = 0
    for i in range(1, len(a)):
        if (keys[i] > keys[best]) if want_max else (keys[i] < keys[best]):
            best = i
    return a[best]


@_builtin("max", "array-number|array-string")
def _f_max(a):
    return _extreme(a, a, True) if a else None


@_builtin("min", "array-number|array-string")
def _f_min(a):
    return _extreme(a, a, False) if a else None


@_builtin("max_by", "array", "expref")
def _f_max_by(a, expref):
    keys = _keyed("max_by", a, expref)
    return _extreme(a, keys, True) if a else None


@_builtin("min_by", "array", "expref")
def _f_min_by(a, expref):
    keys = _keyed("min_by", a, expref)
    return _extreme(a, keys, False) if a else None


@_builtin("merge", "object", variadic=True)
def _f_merge(*objs):
    out = {}
    for o in objs:
        out.update(o)
    return out


@_builtin("not_null", "any", variadic=True)
def _f_not_null(*args):
    for a in args:
        if a is not None:
            return a
    return None


@_builtin("reverse", "array|string")
def _f_reverse(x):
    return x[::-1]


@_builtin("sort", "array-number|array-string")
def _f_sort(a):
    return sorted(a)


@_builtin("sort_by", "array", "expref")
def _f_sort_by(a, expref):
    keys = _keyed("sort_by", a, expref)
    order = sorted(range(len(a)), key=keys.__getitem__)  # sorted() is stable
    return [a[i] for i in order]


@_builtin("sum", "array-number")
def _f_sum(a):
    total = 0
    for x in a:
        total = total + x
    return total


@_builtin("to_array", "any")
def _f_to_array(x):
    return x if isinstance(x, list) else [x]


def _to_json_text(x):
    return json.dumps(x, separators=(",", ":"), ensure_ascii=False)


@_builtin("to_string", "any")
def _f_to_string(x):
    return x if isinstance(x, str) else _to_json_text(x)


_JSON_NUMBER = re.compile(r"-?(?:0|[1-9][0-9]*)(\.[0-9]+)?([eE][+-]?[0-9]+)?\Z")


@_builtin("to_number", "any")
def _f_to_number(x):
    if _is_number(x):
        return x
    if isinstance(x, str):
        m = _JSON_NUMBER.match(x)
        if not m:
            return None
        if m.group(1) is None and m.group(2) is None:
            return int(x)
        f = float(x)
        return f if math.isfinite(f) else None
    return None


@_builtin("type", "any")
def _f_type(x):
    return _type_name(x)


# ---------------------------------------------------------------------------
# Random document / expression generator
# ---------------------------------------------------------------------------

GEN_KEYS = ["a", "b", "c", "foo", "bar", "k 1", "é", ""]
_GEN_MISSING_KEYS = ["zz", "missing", "a b", "A", "è", "0"]
_GEN_STRINGS = ["", "a", "b", "c", "abc", "foo", "bar", "foobar", "hello world",
                "é", "日本", "10", "-2.5", "1e2", "x y", "it's",
                "q\"uote", "back\\slash", "tick`", "\U0001d11e", "line\nbreak",
                "true", "null", " 7"]
_GEN_FLOATS = [0.5, 1.5, 2.25, -0.5, -3.75, 10.5, 0.25, 7.75]
_UNQUOTED_RE = re.compile(r"[A-Za-z_][A-Za-z0-9_]*\Z")


def _g_int(rng):
    return rng.randint(-5, 20) if rng.random() < 0.9 else rng.choice([0, -1, 100, 1000])


def _g_scalar(rng):
    r = rng.random()
    if r < 0.35:
        return _g_int(rng)
    if r < 0.45:
        return rng.choice(_GEN_FLOATS)
    if r < 0.75:
        return rng.choice(_GEN_STRINGS)
    if r < 0.87:
        return rng.random() < 0.5
    return None


def _g_object(rng, depth, keys=None):
    if keys is None:
        n = rng.choice([0, 1, 2, 2, 3, 3, 4, 5])
        keys = rng.sample(GEN_KEYS, n)
    return {k: _g_value(rng, depth - 1) for k in keys}


def _g_array(rng, depth):
    r = rng.random()
    n = rng.choice([0, 1, 2, 3, 3, 4, 5])
    if r < 0.08:
        return []
    if r < 0.22:
        return [_g_int(rng) for _ in range(n)]
    if r < 0.30:
        return [rng.choice(_GEN_FLOATS) if rng.random() < 0.4 else _g_int(rng)
                for _ in range(n)]
    if r < 0.42:
        return [rng.choice(_GEN_STRINGS) for _ in range(n)]
    if r < 0.52:
        return [_g_scalar(rng) for _ in range(n)]
    if depth <= 0:
        return [_g_scalar(rng) for _ in range(n)]
    if r < 0.78:
        # array of objects sharing keys; values of one key have a common type
        keys = rng.sample(GEN_KEYS, rng.choice([1, 2, 2, 3]))
        makers = {}
        for k in keys:
            makers[k] = rng.choice([
                _g_int, lambda g: g.choice(_GEN_STRINGS), _g_scalar,
                lambda g: g.choice(_GEN_FLOATS) if g.random() < 0.5 else _g_int(g),
                lambda g: _g_value(g, depth - 1),
                lambda g: [_g_int(g) for _ in range(g.randint(0, 3))],
            ])
        out = []
        for _ in range(max(n, 1)):
            o = {}
            for k in keys:
                if rng.random() < 0.88:
                    o[k] = makers[k](rng)
            out.append(o)
        if rng.random() < 0.15:
            out.insert(rng.randrange(len(out) + 1), _g_scalar(rng))
        return out
    if r < 0.90:
        # nested arrays
        return [_g_array(rng, depth - 1) if rng.random() < 0.75 else _g_scalar(rng)
                for _ in range(n)]
    return [_g_value(rng, depth - 1) for _ in range(n)]


def _g_value(rng, depth):
    if depth <= 0:
        r = rng.random()
        if r < 0.8:
            return _g_scalar(rng)
        return [] if r < 0.9 else {}
    r = rng.random()
    if r < 0.34:
        return _g_scalar(rng)
    if r < 0.67:
        return _g_object(rng, depth)
    return _g_array(rng, depth)


def gen_document(rng, depth=3):
    """Random JSON document (Python value).  The root is usually an object."""
    r = rng.random()
    if r < 0.78:
        n = rng.choice([2, 3, 4, 4, 5, 6])
        return _g_object(rng, depth, rng.sample(GEN_KEYS, n))
    if r < 0.95:
        a = _g_array(rng, depth)
        return a
    return _g_value(rng, depth)


# ---- expression text helpers

def _ident(rng, key):
    if _UNQUOTED_RE.match(key) and rng.random() < 0.9:
        return key
    return json.dumps(key, ensure_ascii=rng.random() < 0.3)


def _literal(rng, value):
    """JMESPath literal text for a JSON value."""
    if isinstance(value, str) and "\\" not in value and rng.random() < 0.6:
        return "'" + value.replace("'", "\\'") + "'"
    text = json.dumps(value, ensure_ascii=rng.random() < 0.3,
                      separators=rng.choice([(",", ":"), (", ", ": ")]))
    text = text.replace("`", "\\`")
    if rng.random() < 0.1:
        text = " " + text + " "
    return "`" + text + "`"


def _pick_key(rng, obj, p_existing=0.85):
    if isinstance(obj, dict) and obj and rng.random() < p_existing:
        return rng.choice(list(obj.keys()))
    if rng.random() < 0.6:
        return rng.choice(GEN_KEYS)
    return rng.choice(_GEN_MISSING_KEYS)


def _first_non_null(lst):
    for el in lst:
        if el is not None:
            return el
    return None


def _sample_element(rng, lst):
    """A representative element of a list (used to steer projection RHS)."""
    cands = [el for el in lst if el is not None]
    if not cands:
        return None
    # prefer containers: they allow the chain to continue
    conts = [el for el in cands if isinstance(el, (dict, list))]
    if conts and rng.random() < 0.8:
        return rng.choice(conts)
    return rng.choice(cands)


def _safe_search(expr, cur):
    try:
        return True, search(expr, cur)
    except JMESPathError as e:
        if e.kind == "syntax":
            raise AssertionError("generator produced invalid syntax: %r (%s)"
                                 % (expr, e))
        return False, None


def _paths(cur, limit=60):
    """Enumerate simple (expression-text, value) pairs reachable from cur."""
    out = [("@", cur)]

    def ident(k):
        return k if _UNQUOTED_RE.match(k) else json.dumps(k, ensure_ascii=False)

    def rec(prefix, val, depth):
        if len(out) >= limit or depth <= 0:
            return
        if isinstance(val, dict):
            for k, v in val.items():
                e = (prefix + "." if prefix else "") + ident(k)
                out.append((e, v))
                rec(e, v, depth - 1)
        elif isinstance(val, list):
            for i, v in enumerate(val[:2]):
                e = "%s[%d]" % (prefix, i)
                out.append((e, v))
                rec(e, v, depth - 1)
            keys = []
            for el in val:
                if isinstance(el, dict):
                    for k in el:
                        if k not in keys:
                            keys.append(k)
            for k in keys[:4]:
                e = "%s[*].%s" % (prefix, ident(k))
                out.append((e, [el[k] for el in val
                                if isinstance(el, dict) and el.get(k) is not None]))
    rec("", cur, 3)
    return out[:limit]


_TYPE_PRED = {
    "any": lambda v: True,
    "number": _is_number,
    "string": lambda v: isinstance(v, str),
    "boolean": lambda v: isinstance(v, bool),
    "array": lambda v: isinstance(v, list),
    "object": lambda v: isinstance(v, dict),
    "null": lambda v: v is None,
    "array-number": lambda v: isinstance(v, list) and all(_is_number(x) for x in v),
    "array-string": lambda v: isinstance(v, list) and all(isinstance(x, str) for x in v),
    "array-object": lambda v: isinstance(v, list) and len(v) > 0 and
    all(isinstance(x, dict) for x in v),
}


def _fresh_value(rng, want):
    if want == "number":
        return _g_int(rng) if rng.random() < 0.7 else rng.choice(_GEN_FLOATS)
    if want == "string":
        return rng.choice(_GEN_STRINGS)
    if want == "boolean":
        return rng.random() < 0.5
    if want == "null":
        return None
    if want == "array-number":
        return [_fresh_value(rng, "number") for _ in range(rng.randint(0, 4))]
    if want == "array-string":
        return [rng.choice(_GEN_STRINGS) for _ in range(rng.randint(0, 4))]
    if want == "array-object":
        return [{"a": _g_int(rng), "b": rng.choice(_GEN_STRINGS)}
                for _ in range(rng.randint(1, 4))]
    if want == "array":
        return _g_array(rng, 1)
    if want == "object":
        return _g_object(rng, 1)
    return _g_value(rng, 1)


class _Gen:
    def __init__(self, rng, allow_ambiguous_not):
        self.rng = rng
        self.amb_not = allow_ambiguous_not

    # -- typed argument ---------------------------------------------------
    def arg(self, cur, want, depth):
        """Returns (text, value-or-None) of an expression mostly of type want."""
        rng = self.rng
        r = rng.random()
        if r < 0.08:
            # deliberately arbitrary (possibly ill-typed)
            e = self.expr(cur, max(depth - 1, 0))
            ok, v = _safe_search(e, cur)
            return e, v
        pred = _TYPE_PRED[want]
        if r < 0.72:
            cands = [(e, v) for e, v in _paths(cur) if pred(v)]
            if want in ("array", "array-number", "array-string", "any"):
                non_empty = [c for c in cands if c[1]]
                if non_empty and rng.random() < 0.85:
                    cands = non_empty
            if cands:
                return rng.choice(cands)
        v = _fresh_value(rng, want)
        return _literal(rng, v), v

    # -- function call ----------------------------------------------------
    def call(self, cur, depth, name=None):
        rng = self.rng
        if name is None:
            name = rng.choice(_GEN_FUNCTION_NAMES)
        r = rng.random()
        if r < 0.02:
            bad = rng.choice(["unknown", "lenght", "to_str", "foo", "sortby", "_x1"])
            args = [self.arg(cur, "any", depth)[0] for _ in range(rng.randint(0, 2))]
            return "%s(%s)" % (bad, ", ".join(args))
        args = self.call_args(cur, depth, name)
        r = rng.random()
        if r < 0.03 and args:
            args.pop(rng.randrange(len(args)))
        elif r < 0.06:
            args.append(self.arg(cur, "any", depth)[0])
        elif r < 0.10 and args:
            # ill-typed argument
            i = rng.randrange(len(args))
            args[i] = self.arg(cur, rng.choice(
                ["number", "string", "boolean", "null", "array", "object"]), depth)[0]
        sep = rng.choice([", ", ",", " , "])
        return "%s(%s)" % (name, sep.join(args))

    def expref_for(self, arr_val, depth, want_sortable):
        rng = self.rng
        sample = _sample_element(rng, arr_val) if isinstance(arr_val, list) else None
        if isinstance(sample, dict) and sample and rng.random() < 0.8:
            keys = list(sample.keys())
            if want_sortable:
                good = [k for k in keys
                        if _is_number(sample[k]) or isinstance(sample[k], str)]
                if good and rng.random() < 0.9:
                    keys = good
            body = _ident(rng, rng.choice(keys))
            if want_sortable and rng.random() < 0.1:
                body = "to_string(%s)" % body
        elif want_sortable and sample is not None and not isinstance(sample, (dict, list)) \
                and rng.random() < 0.8:
            body = rng.choice(["@", "@", "to_string(@)", "abs(@)", "length(@)"])
        else:
            body = self.expr(sample, max(depth - 1, 0))
        return "&" + body

    def call_args(self, cur, depth, name):
        rng = self.rng
        A = lambda want: self.arg(cur, want, depth)[0]  # noqa: E731
        if name in ("abs", "ceil", "floor"):
            return [A("number")]
        if name in ("avg", "sum"):
            return [A("array-number")]
        if name in ("max", "min", "sort"):
            return [A(rng.choice(["array-number", "array-string"]))]
        if name == "contains":
            e, v = self.arg(cur, rng.choice(["array", "string"]), depth)
            if isinstance(v, str) and v and rng.random() < 0.7:
                i = rng.randrange(len(v))
                item = _literal(rng, v[i:i + rng.randint(1, 3)])
            elif isinstance(v, list) and v and rng.random() < 0.7:
                item = _literal(rng, rng.choice(v))
            else:
                item = A("any")
            return [e, item]
        if name in ("ends_with", "starts_with"):
            e, v = self.arg(cur, "string", depth)
            if isinstance(v, str) and v and rng.random() < 0.6:
                k = rng.randint(1, len(v))
                frag = v[-k:] if name == "ends_with" else v[:k]
                return [e, _literal(rng, frag)]
            return [e, A("string")]
        if name == "join":
            return [_literal(rng, rng.choice([", ", "", "|", "-", "é"]))
                    if rng.random() < 0.8 else A("string"), A("array-string")]
        if name in ("keys", "values"):
            return [A("object")]
        if name == "length":
            return [A(rng.choice(["string", "array", "object"]))]
        if name == "reverse":
            return [A(rng.choice(["string", "array"]))]
        if name == "merge":
            return [A("object") for _ in range(rng.choice([1, 2, 2, 3]))]
        if name == "not_null":
            return [A("any") for _ in range(rng.choice([1, 2, 3, 4]))]
        if name in ("to_array", "to_string", "type"):
            return [A("any")]
        if name == "to_number":
            return [A(rng.choice(["string", "string", "number", "any"]))]
        if name in ("sort_by", "max_by", "min_by"):
            e, v = self.arg(cur, "array-object" if rng.random() < 0.8 else "array", depth)
            return [e, self.expref_for(v, depth, True)
                    if rng.random() < 0.95 else A("any")]
        if name == "map":
            e, v = self.arg(cur, "array", depth)
            return [self.expref_for(v, depth, False)
                    if rng.random() < 0.95 else A("any"), e]
        raise AssertionError(name)

    # -- primary (head of a chain) ------------------------------------------
    def primary(self, cur, depth):
        """An expression that can be followed by '.', '[' suffixes safely."""
        rng = self.rng
        r = rng.random()
        if isinstance(cur, dict):
            if r < 0.62:
                return _ident(rng, _pick_key(rng, cur))
            if r < 0.68:
                return "*"
            if r < 0.74:
                return self.multi_hash(cur, depth)
            if r < 0.80:
                return self.multi_list(cur, depth)
        elif isinstance(cur, list):
            if r < 0.70:
                return self.bracket(cur, depth)
            if r < 0.76:
                return self.multi_list(cur, depth)
        else:
            if r < 0.30:
                return "@"
            if r < 0.42:
                return _ident(rng, _pick_key(rng, cur))
            if r < 0.50:
                return self.bracket(cur, depth)
        r = rng.random()
        if r < 0.38 and depth > 0:
            return self.call(cur, depth - 1)
        if r < 0.58:
            return "@"
        if r < 0.76:
            if rng.random() < 0.5:
                ps = _paths(cur, 20)
                return _literal(rng, rng.choice(ps)[1])
            return _literal(rng, _g_value(rng, 1))
        if r < 0.90 and depth > 0:
            return "(" + self.expr(cur, depth - 1) + ")"
        return _ident(rng, _pick_key(rng, cur))

    def index_text(self, n):
        rng = self.rng
        r = rng.random()
        if n > 0 and r < 0.6:
            return str(rng.randrange(n))
        if n > 0 and r < 0.85:
            return str(-rng.randint(1, n))
        return str(rng.choice([n, n + 3, -n - 1, -n - 4, 0, 100]))

    def slice_text(self, n):
        rng = self.rng

        def part(p_omit):
            if rng.random() < p_omit:
                return ""
            return str(rng.randint(-n - 2, n + 2))
        start = part(0.4)
        stop = part(0.4)
        r = rng.random()
        if r < 0.45:
            return "%s:%s" % (start, stop)
        if r < 0.55:
            return "%s:%s:" % (start, stop)
        if r < 0.60:
            step = "0"
        else:
            step = str(rng.choice([1, 2, 3, -1, -1, -2, -3, 5, -7]))
        return "%s:%s:%s" % (start, stop, step)

    def bracket(self, cur, depth):
        """A bracket form usable both as primary and as suffix:
        [n]  [a:b:c]  [*]  []  [?cond]"""
        rng = self.rng
        n = len(cur) if isinstance(cur, list) else 2
        r = rng.random()
        if r < 0.30:
            return "[" + self.index_text(n) + "]"
        if r < 0.45:
            return "[" + self.slice_text(n) + "]"
        if r < 0.65:
            return "[*]"
        if r < 0.78:
            return "[]"
        sample = _sample_element(rng, cur) if isinstance(cur, list) else None
        sp = rng.choice(["", "", " "])
        return "[?" + sp + self.condition(cur, sample, max(depth - 1, 0)) + sp + "]"

    def multi_list(self, cur, depth):
        rng = self.rng
        items = [self.expr(cur, max(depth - 1, 0))
                 for _ in range(rng.choice([1, 2, 2, 3]))]
        return "[" + rng.choice([", ", ","]).join(items) + "]"

    def multi_hash(self, cur, depth):
        rng = self.rng
        pairs = []
        # distinct keys: the spec does not say what duplicate keys mean
        for k in rng.sample(GEN_KEYS + ["x", "y", "z"], rng.choice([1, 2, 2, 3])):
            pairs.append("%s%s%s" % (_ident(rng, k), rng.choice([": ", ":"]),
                                     self.expr(cur, max(depth - 1, 0))))
        return "{" + rng.choice([", ", ","]).join(pairs) + "}"

    # -- filter condition ---------------------------------------------------
    def condition(self, arr, sample, depth):
        rng = self.rng
        r = rng.random()
        if r < 0.62:
            return self.comparison(arr, sample, depth)
        if r < 0.72:
            return self.chain(sample, min(depth, 1))
        if r < 0.82 and depth > 0:
            return "%s %s %s" % (self.condition(arr, sample, depth - 1),
                                 rng.choice(["&&", "||"]),
                                 self.condition(arr, sample, depth - 1))
        if r < 0.90:
            return self.not_expr(sample, depth)
        return self.expr(sample, depth)

    def comparison(self, arr, sample, depth):
        rng = self.rng
        op = rng.choice(["==", "==", "!=", "<", "<=", ">", ">="])
        lhs = None
        rhs_val = None
        have_rhs = False
        if isinstance(sample, dict) and sample and rng.random() < 0.85:
            k = rng.choice(list(sample.keys()))
            lhs = _ident(rng, k)
            pool = [el[k] for el in arr if isinstance(el, dict) and k in el] \
                if isinstance(arr, list) else [sample[k]]
            if op not in ("==", "!="):
                nums = [v for v in pool if _is_number(v)]
                pool = nums or pool
            if pool:
                rhs_val = rng.choice(pool)
                have_rhs = True
        elif sample is not None and not isinstance(sample, (dict, list)) \
                and rng.random() < 0.85:
            lhs = "@"
            pool = [el for el in arr if not isinstance(el, (dict, list))] \
                if isinstance(arr, list) else [sample]
            if pool:
                rhs_val = rng.choice(pool)
                have_rhs = True
        if lhs is None:
            lhs = self.chain(sample, min(depth, 2))
        r = rng.random()
        if have_rhs and r < 0.75:
            if _is_number(rhs_val) and rng.random() < 0.3:
                rhs_val = rhs_val + rng.choice([-1, 1, 0.5])
            rhs = _literal(rng, rhs_val)
        elif r < 0.9:
            rhs = self.chain(sample, min(depth, 1))
        else:
            rhs = _literal(rng, _g_scalar(rng))
        if rng.random() < 0.15:
            lhs, rhs = rhs, lhs
        sp = rng.choice([" ", " ", ""])
        return lhs + sp + op + sp + rhs

    def not_expr(self, cur, depth):
        rng = self.rng
        r = rng.random()
        if self.amb_not and r < 0.3:
            return "!" + self.chain(cur, min(depth, 2))
        if r < 0.45:
            return "!(" + self.expr(cur, max(depth - 1, 0)) + ")"
        if r < 0.55:
            return "!!" + self.simple_operand(cur)
        return "!" + self.simple_operand(cur)

    def simple_operand(self, cur):
        """Operand whose meaning after '!' does not depend on precedence."""
        rng = self.rng
        r = rng.random()
        if r < 0.6:
            return _ident(rng, _pick_key(rng, cur))
        if r < 0.75:
            return "@"
        if r < 0.85:
            return _literal(rng, _g_scalar(rng))
        return "(" + self.chain(cur, 1) + ")"

    # -- chain: primary followed by suffixes ----------------------------------
    def chain(self, cur, depth):
        rng = self.rng
        text = self.primary(cur, depth)
        steps = rng.choice([0, 1, 1, 2, 2, 3, 4]) if depth > 0 else rng.choice([0, 0, 1])
        for _ in range(steps):
            ok, val = _safe_search(text, cur)
            if not ok:
                break
            node = compile(text)
            in_proj = node.kind in ("projection", "value_projection", "filter_projection")
            if in_proj:
                eff = _sample_element(rng, val) if isinstance(val, list) else None
            else:
                eff = val
            r = rng.random()
            if r < 0.10 and depth > 0:
                # pipe: stops a projection; RHS relative to the whole value
                text = text + rng.choice([" | ", "|"]) + self.pipe_rhs(val, depth - 1)
                continue
            if eff is None and r < 0.75:
                break
            if in_proj and isinstance(val, list) and r > 0.93:
                # index/slice/flatten the projection result itself
                text = "(" + text + ")" + rng.choice(["[0]", "[-1]", "[]", "[1:]"])
                continue
            text = text + self.suffix(eff, depth)
        return text

    def pipe_rhs(self, val, depth):
        rng = self.rng
        r = rng.random()
        if isinstance(val, list) and r < 0.5:
            return self.bracket(val, depth)
        if r < 0.75 and depth >= 0:
            return self.call(val, max(depth, 0))
        return self.chain(val, depth)

    def suffix(self, eff, depth):
        rng = self.rng
        r = rng.random()
        d1 = max(depth - 1, 0)
        if isinstance(eff, dict):
            if r < 0.62:
                return "." + _ident(rng, _pick_key(rng, eff))
            if r < 0.72:
                return ".*"
            if r < 0.80:
                return "." + self.multi_hash(eff, d1)
            if r < 0.87:
                return "." + self.multi_list(eff, d1)
            if r < 0.97:
                return "." + self.call(eff, d1)
            return self.bracket(eff, d1)
        if isinstance(eff, list):
            if r < 0.90:
                return self.bracket(eff, d1)
            if r < 0.95:
                return "." + self.call(eff, d1)
            return "." + _ident(rng, _pick_key(rng, eff))
        # scalar / null
        if r < 0.35:
            return "." + self.call(eff, d1)
        if r < 0.65:
            return "." + _ident(rng, _pick_key(rng, eff))
        if r < 0.85:
            return self.bracket(eff, d1)
        if r < 0.92:
            return ".*"
        return "." + self.multi_list(eff, d1)

    # -- full expression -------------------------------------------------------
    def operand(self, cur, depth):
        """Operand of && / || / comparator: a chain, a comparison or (..)."""
        rng = self.rng
        r = rng.random()
        if r < 0.6 or depth <= 0:
            return self.chain(cur, depth)
        if r < 0.75:
            return self.not_expr(cur, depth - 1)
        return "(" + self.expr(cur, depth - 1) + ")"

    def cmp_operand(self, cur, depth):
        """Operand of a comparator: never a bare `!x` (would depend on the
        precedence of `!` versus comparators) nor a bare comparison (would
        depend on comparator associativity)."""
        text = self.operand(cur, depth)
        if text.startswith("!") and not self.amb_not:
            text = "(" + text + ")"
        return text

    def expr(self, cur, depth):
        rng = self.rng
        if depth <= 0:
            return self.chain(cur, 0)
        r = rng.random()
        if r < 0.62:
            return self.chain(cur, depth)
        if r < 0.70:
            return "%s || %s" % (self.bool_operand(cur, depth - 1),
                                 self.bool_operand(cur, depth - 1))
        if r < 0.78:
            return "%s && %s" % (self.bool_operand(cur, depth - 1),
                                 self.bool_operand(cur, depth - 1))
        if r < 0.86:
            op = rng.choice(["==", "!=", "<", "<=", ">", ">="])
            return "%s %s %s" % (self.cmp_operand(cur, depth - 1), op,
                                 self.cmp_operand(cur, depth - 1))
        if r < 0.91:
            return self.not_expr(cur, depth - 1)
        if r < 0.96:
            left = self.chain(cur, depth - 1)
            ok, val = _safe_search(left, cur)
            return left + " | " + self.expr(val if ok else None, depth - 1)
        return rng.choice(["( %s )", "(%s)"]) % self.expr(cur, depth - 1)

    def bool_operand(self, cur, depth):
        """Operand of && / ||: may itself be an (un-parenthesised) && / || /
        comparison -- all valid and unambiguous with the standard precedence."""
        rng = self.rng
        r = rng.random()
        if r < 0.55 or depth <= 0:
            return self.operand(cur, depth)
        if r < 0.75:
            op = rng.choice(["==", "!=", "<", ">="])
            return "%s %s %s" % (self.cmp_operand(cur, depth - 1), op,
                                 self.cmp_operand(cur, depth - 1))
        return "%s %s %s" % (self.bool_operand(cur, depth - 1),
                             rng.choice(["&&", "||"]),
                             self.bool_operand(cur, depth - 1))


_GEN_FUNCTION_NAMES = sorted(FUNCTIONS)


def gen_expression(rng, doc, depth=4, allow_ambiguous_not=False):
    """Random syntactically valid JMESPath expression steered by doc's shape.

    With allow_ambiguous_not=False (default) a `!` is only ever applied to an
    identifier, `@`, a literal or a parenthesised expression that is not followed
    by `.`/`[`, so the result does not depend on the relative precedence of
    `!` versus `.`/`[`/comparators.
    """
    g = _Gen(rng, allow_ambiguous_not)
    r = rng.random()
    if r < 0.06:
        # exercise one specific function at top level
        text = g.call(doc, depth - 1)
    else:
        text = g.expr(doc, depth)
    if rng.random() < 0.05:
        text = rng.choice([" ", "\t", "\n"]) + text + rng.choice([" ", "\n", "  "])
    return text
