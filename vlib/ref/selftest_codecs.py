#!/usr/bin/env python3
"""Self-test of the reference codecs.  Run: python3 selftest_codecs.py  -> prints OK, exit 0."""
import os
import random
import struct
import sys
import time

sys.path.insert(0, os.path.dirname(os.path.dirname(os.path.dirname(os.path.abspath(__file__)))))
from vlib.ref import rv, cbor_ref, msgpack_ref, ubjson_ref, bson_ref   # noqa: E402

MODS = [("cbor", cbor_ref), ("msgpack", msgpack_ref), ("ubjson", ubjson_ref), ("bson", bson_ref)]
H = bytes.fromhex
NAN, INF = float("nan"), float("inf")


def check(cond, *msg):
    if not cond:
        raise AssertionError(" ".join(str(m) for m in msg))


def expect_bad(mod, data, reason, **kw):
    r = mod.decode(data, **kw)
    check(r.status == "illformed" and r.reason == reason,
          mod.__name__, data[:40].hex(), "expected", reason, "got", r)


def expect_ok(mod, data, value, consumed=None, feats=(), jsonlike=None):
    r = mod.decode(data)
    check(r.ok and r.value == value, mod.__name__, data.hex(), "expected", value, "got", r)
    check(r.consumed == (len(data) if consumed is None else consumed), "consumed", r)
    for f in feats:
        check(f in r.features, "feature", f, "missing in", r)
    if jsonlike is not None:
        check(r.jsonlike is jsonlike, "jsonlike", r)
    return r


# --------------------------------------------------------------------------- RV shorthands
def I(n): return ("int", n)
def F(x, w): return rv.mkfloat(x, w)
def T(s): return ("text", s.encode("utf-8"))
def B(h): return ("bytes", H(h))
def A(*xs): return ("array", list(xs))
def M(*kv): return ("map", [(kv[i], kv[i + 1]) for i in range(0, len(kv), 2)])
def TAG(n, x): return ("tag", n, x)


NULL, TRUE, FALSE, UNDEF = ("null",), ("bool", True), ("bool", False), ("undefined",)
SEQ25 = [I(i) for i in range(1, 26)]

# --------------------------------------------------------------------------- helpers / rv.py

def test_rv():
    for bits in range(1 << 16):                       # binary16: hand decoder vs struct 'e'
        a = rv.float_value(bits, 16)
        b = struct.unpack(">e", bits.to_bytes(2, "big"))[0]
        check((a != a and b != b) or (a == b and str(a) == str(b)), "half", hex(bits), a, b)
    check(rv.float_value(0x0001, 16) == 5.960464477539063e-08 and rv.float_value(0x0400, 16) == 0.00006103515625)
    check(rv.float_value(0x7BFF, 16) == 65504.0 and rv.float_value(0xFC00, 16) == -INF)
    check(str(rv.float_value(0x8000, 16)) == "-0.0" and rv.float_is_nan(0x7E00, 16) and not rv.float_is_nan(0x7C00, 16))
    check(rv.float_value(0x7F7FFFFF, 32) == 3.4028234663852886e+38 and rv.float_value(0x7E37E43C8800759C, 64) == 1.0e300)
    bad = ["80", "bf", "c0 80", "c1 bf", "c2", "c2 41", "e0 80 80", "e0 9f bf", "ed a0 80", "ed bf bf", "e1 80",
           "f0 80 80 80", "f0 8f bf bf", "f4 90 80 80", "f5 80 80 80", "f8 88 80 80 80", "ff", "fe", "61 c3", "f0 90 80"]
    good = ["", "00", "7f", "c2 80", "df bf", "e0 a0 80", "ed 9f bf", "ee 80 80", "ef bf bf", "f0 90 80 80", "f4 8f bf bf"]
    for h in bad:
        check(not rv.utf8_valid(H(h)) and not rv.utf8_valid_manual(H(h)), "utf8 bad", h)
    for h in good:
        check(rv.utf8_valid(H(h)) and rv.utf8_valid_manual(H(h)), "utf8 good", h)
    rng = random.Random(7)
    lead = [0x00, 0x41, 0x7F, 0x80, 0x8F, 0x90, 0x9F, 0xA0, 0xBF, 0xC0, 0xC1, 0xC2, 0xDF, 0xE0, 0xE1, 0xEC, 0xED, 0xEE,
            0xEF, 0xF0, 0xF1, 0xF3, 0xF4, 0xF5, 0xFF]
    for _ in range(100000):                           # differential: CPython decoder vs hand-written
        b = bytes(rng.choice(lead) for _ in range(rng.randint(0, 6)))
        check(rv.utf8_valid(b) == rv.utf8_valid_manual(b), "utf8 differential", b.hex())
    check(rv.classify(M(T("a"), I(1), T("a"), I(2))) == (True, {"dup-keys"}))
    check(rv.classify(M(I(1), A(UNDEF)))[0] is False)
    check(rv.classify(TAG(5, A(F(1.0, 16), ("hpn", b"1")))) == (True, {"tag:5", "float16", "hpn"}))


# --------------------------------------------------------------------------- CBOR vectors
# RFC 8949 Appendix A: (hex, diagnostic notation [definite spelling], expected RV, indefinite?)
APP_A = [
    ("00", "0", I(0)), ("01", "1", I(1)), ("0a", "10", I(10)), ("17", "23", I(23)), ("1818", "24", I(24)),
    ("1819", "25", I(25)), ("1864", "100", I(100)), ("1903e8", "1000", I(1000)),
    ("1a000f4240", "1000000", I(1000000)), ("1b000000e8d4a51000", "1000000000000", I(10 ** 12)),
    ("1bffffffffffffffff", "18446744073709551615", I(2 ** 64 - 1)),
    ("c249010000000000000000", "2(h'010000000000000000')", TAG(2, B("010000000000000000"))),   # 18446744073709551616
    ("3bffffffffffffffff", "-18446744073709551616", I(-2 ** 64)),
    ("c349010000000000000000", "3(h'010000000000000000')", TAG(3, B("010000000000000000"))),   # -18446744073709551617
    ("20", "-1", I(-1)), ("29", "-10", I(-10)), ("3863", "-100", I(-100)), ("3903e7", "-1000", I(-1000)),
    ("f90000", "0.0", F(0.0, 16)), ("f98000", "-0.0", F(-0.0, 16)), ("f93c00", "1.0", F(1.0, 16)),
    ("fb3ff199999999999a", "1.1", F(1.1, 64)), ("f93e00", "1.5", F(1.5, 16)), ("f97bff", "65504.0", F(65504.0, 16)),
    ("fa47c35000", "100000.0", F(100000.0, 32)), ("fa7f7fffff", "3.4028234663852886e+38", F(3.4028234663852886e+38, 32)),
    ("fb7e37e43c8800759c", None, F(1.0e+300, 64)), ("f90001", None, F(5.960464477539063e-8, 16)),
    ("f90400", None, F(0.00006103515625, 16)), ("f9c400", "-4.0", F(-4.0, 16)),
    ("fbc010666666666666", "-4.1", F(-4.1, 64)),
    ("f97c00", "Infinity", F(INF, 16)), ("f97e00", "NaN", F(NAN, 16)), ("f9fc00", "-Infinity", F(-INF, 16)),
    ("fa7f800000", "Infinity", F(INF, 32)), ("fa7fc00000", "NaN", F(NAN, 32)), ("faff800000", "-Infinity", F(-INF, 32)),
    ("fb7ff0000000000000", "Infinity", F(INF, 64)), ("fb7ff8000000000000", "NaN", F(NAN, 64)),
    ("fbfff0000000000000", "-Infinity", F(-INF, 64)),
    ("f4", "false", FALSE), ("f5", "true", TRUE), ("f6", "null", NULL), ("f7", "undefined", UNDEF),
    ("f0", "simple(16)", ("simple", 16)), ("f8ff", "simple(255)", ("simple", 255)),
    ("c074323031332d30332d32315432303a30343a30305a", '0("2013-03-21T20:04:00Z")', TAG(0, T("2013-03-21T20:04:00Z"))),
    ("c11a514b67b0", "1(1363896240)", TAG(1, I(1363896240))),
    ("c1fb41d452d9ec200000", "1(1363896240.5)", TAG(1, F(1363896240.5, 64))),
    ("d74401020304", "23(h'01020304')", TAG(23, B("01020304"))),
    ("d818456449455446", "24(h'6449455446')", TAG(24, B("6449455446"))),
    ("d82076687474703a2f2f7777772e6578616d706c652e636f6d", '32("http://www.example.com")', TAG(32, T("http://www.example.com"))),
    ("40", "h''", B("")), ("4401020304", "h'01020304'", B("01020304")),
    ("60", '""', T("")), ("6161", '"a"', T("a")), ("6449455446", '"IETF"', T("IETF")),
    ("62225c", '"\\"\\\\"', T('"\\')), ("62c3bc", '"ü"', T("ü")), ("63e6b0b4", '"水"', T("水")),
    ("64f0908591", '"\U00010151"', T("\U00010151")),
    ("80", "[]", A()), ("83010203", "[1, 2, 3]", A(I(1), I(2), I(3))),
    ("8301820203820405", "[1, [2, 3], [4, 5]]", A(I(1), A(I(2), I(3)), A(I(4), I(5)))),
    ("98190102030405060708090a0b0c0d0e0f101112131415161718181819",
     "[" + ", ".join(str(i) for i in range(1, 26)) + "]", A(*SEQ25)),
    ("a0", "{}", M()), ("a201020304", "{1: 2, 3: 4}", M(I(1), I(2), I(3), I(4))),
    ("a26161016162820203", '{"a": 1, "b": [2, 3]}', M(T("a"), I(1), T("b"), A(I(2), I(3)))),
    ("826161a161626163", '["a", {"b": "c"}]', A(T("a"), M(T("b"), T("c")))),
    ("a56161614161626142616361436164614461656145", '{"a": "A", "b": "B", "c": "C", "d": "D", "e": "E"}',
     M(T("a"), T("A"), T("b"), T("B"), T("c"), T("C"), T("d"), T("D"), T("e"), T("E"))),
    ("5f42010243030405ff", "h'0102030405'", B("0102030405"), True),             # (_ h'0102', h'030405')
    ("7f657374726561646d696e67ff", '"streaming"', T("streaming"), True),        # (_ "strea", "ming")
    ("9fff", "[]", A(), True),
    ("9f018202039f0405ffff", "[1, [2, 3], [4, 5]]", A(I(1), A(I(2), I(3)), A(I(4), I(5))), True),
    ("9f01820203820405ff", "[1, [2, 3], [4, 5]]", A(I(1), A(I(2), I(3)), A(I(4), I(5))), True),
    ("83018202039f0405ff", "[1, [2, 3], [4, 5]]", A(I(1), A(I(2), I(3)), A(I(4), I(5))), True),
    ("83019f0203ff820405", "[1, [2, 3], [4, 5]]", A(I(1), A(I(2), I(3)), A(I(4), I(5))), True),
    ("9f0102030405060708090a0b0c0d0e0f101112131415161718181819ff",
     "[" + ", ".join(str(i) for i in range(1, 26)) + "]", A(*SEQ25), True),
    ("bf61610161629f0203ffff", '{"a": 1, "b": [2, 3]}', M(T("a"), I(1), T("b"), A(I(2), I(3))), True),
    ("826161bf61626163ff", '["a", {"b": "c"}]', A(T("a"), M(T("b"), T("c"))), True),
    ("bf6346756ef563416d7421ff", '{"Fun": true, "Amt": -2}', M(T("Fun"), TRUE, T("Amt"), I(-2)), True),
]

# RFC 8949 Appendix F (examples of well-formedness errors), grouped by the reason we report.
APP_F = {
    "truncated": """18|19|1a|1b|1901|1a0102|1b01020304050607|38|58|78|98|9a01ff00|b8|d8|f8|f900|fa0000|fb000000|
        41|61|5affffffff00|5bffffffffffffffff010203|7affffffff00|7b7fffffffffffffff010203|
        81|818181818181818181|8200|a1|a20102|a100|a2000000|c0|5f4100|7f6100|
        9f|9f0102|bf|bf01020102|819f|9f8000|9f9f9f9f9fffffffff|9f819f819f9fffffff""",
    "reserved-ai": "1c|1d|1e|3c|3d|3e|5c|5d|5e|7c|7d|7e|9c|9d|9e|bc|bd|be|dc|dd|de|fc|fd|fe",
    "simple-2byte-lt32": "f800|f801|f818|f81f",
    "indef-chunk-type": "5f00ff|5f21ff|5f6100ff|5f80ff|5fa0ff|5fc000ff|5fe0ff|7f4100ff|5f5f4100ffff|7f7f6100ffff",
    "bad-break": "ff|81ff|8200ff|a1ff|a1ff00|a100ff|a20000ff|9f81ff|9f829f819f9fffffffff",
    "map-odd": "bf00ff|bf000000ff",
    "indef-major": "1f|3f|df",
}


def test_cbor_vectors():
    c = cbor_ref
    check(len(APP_A) >= 60)
    for ent in APP_A:
        hx, dg, val = ent[:3]
        indef = len(ent) > 3
        r = expect_ok(c, H(hx), val)
        check(("indefinite" in r.features) == indef and "nonminimal" not in r.features, hx, r)
        if dg is not None:
            check(c.diag(r.value) == dg, "diag", hx, c.diag(r.value), dg)
        if not indef:
            check(c.encode(val) == H(hx), "canonical encode", hx, c.encode(val).hex())
    n = 0
    for reason, vecs in APP_F.items():
        for hx in vecs.replace("\n", "").replace(" ", "").split("|"):
            expect_bad(c, H(hx), reason)
            n += 1
    check(n >= 90, n)
    # more hand-written cases
    for hx in ("6180", "62c080", "63eda080", "64f4908080", "62c328", "7f61c361bcff", "7f62c3bc6180ff"):
        expect_bad(c, H(hx), "invalid-utf8")
    expect_ok(c, H("7f62c3bc60ff"), T("ü"), feats=["indefinite"])
    expect_bad(c, H("5f5c"), "reserved-ai")             # chunk of right major type but reserved ai
    expect_bad(c, H("c0ff"), "bad-break")
    expect_bad(c, H("9fc0ff"), "bad-break")
    expect_bad(c, H("bf01c0ff"), "bad-break")
    expect_bad(c, H("d81f"), "truncated")
    expect_bad(c, H("9f" * 1025), "nesting")
    expect_bad(c, H("81" * 1025 + "00"), "nesting")
    expect_bad(c, H("a1" * 5 + "00"), "nesting", max_depth=4)
    expect_ok(c, H("81" * 1024 + "00"), nest("array", 1024, I(0)))
    r = c.decode(H("9f" * 1100 + "ff" * 1100), max_depth=1100)
    check(r.ok and r.consumed == 2200)
    r = c.decode(H("a100" * 1100 + "00"), max_depth=1100)
    check(r.ok and not r.jsonlike and "non-text-key" in r.features)
    r = c.decode(H("c1" * 5000 + "00"))                 # tags do not count as nesting
    check(r.ok and r.consumed == 5001)
    # non-minimal arguments, trailing bytes, features, jsonlike
    expect_ok(c, H("1800"), I(0), feats=["nonminimal"])
    expect_ok(c, H("1b0000000000000005ff"), I(5), consumed=9, feats=["nonminimal"])
    expect_ok(c, H("390000"), I(-1), feats=["nonminimal"])
    expect_ok(c, H("7a00000001" "61"), T("a"), feats=["nonminimal"])
    expect_ok(c, H("9b0000000000000001" "f6"), A(NULL), feats=["nonminimal"])
    expect_ok(c, H("d9000100"), TAG(1, I(0)), feats=["nonminimal", "tag:1"], jsonlike=True)
    expect_ok(c, H("5fff"), B(""), feats=["indefinite"])
    expect_ok(c, H("5f4040ff"), B(""), feats=["indefinite"])
    expect_ok(c, H("a2616101616102"), M(T("a"), I(1), T("a"), I(2)), feats=["dup-keys"], jsonlike=True)
    expect_ok(c, H("a10102"), M(I(1), I(2)), feats=["non-text-key"], jsonlike=False)
    expect_ok(c, H("81f7"), A(UNDEF), jsonlike=False)
    expect_ok(c, H("f820"), ("simple", 32), jsonlike=False)
    expect_ok(c, H("e0"), ("simple", 0), jsonlike=False)
    expect_ok(c, H("c4822003"), TAG(4, A(I(-1), I(3))), feats=["tag:4"], jsonlike=True)
    expect_ok(c, H("0001"), I(0), consumed=1)
    for v in (I(2 ** 64), I(-2 ** 64 - 1), ("simple", 24), ("simple", 20), ("simple", 256), ("float", 0, 8),
              ("ext", 1, b""), ("hpn", b"1"), ("bson", "minkey", None), ("text", b"\xff"), TAG(2 ** 64, I(0))):
        expect_valueerror(c, v)


def nest(kind, depth, leaf):
    v = leaf
    for _ in range(depth):
        v = (kind, [v]) if kind == "array" else (kind, [(T("k"), v)])
    return v


def expect_valueerror(mod, v):
    try:
        mod.encode(v)
    except ValueError:
        return
    raise AssertionError("%s.encode(%r) did not raise ValueError" % (mod.__name__, v))


# --------------------------------------------------------------------------- MessagePack vectors

def test_msgpack_vectors():
    m = msgpack_ref
    ok = [
        ("82a7636f6d70616374c3a6736368656d6100", M(T("compact"), TRUE, T("schema"), I(0))),   # spec front-page example
        ("00", I(0)), ("7f", I(127)), ("ff", I(-1)), ("e0", I(-32)), ("cc80", I(128)), ("ccff", I(255)),
        ("cd0100", I(256)), ("cdffff", I(65535)), ("ce00010000", I(65536)), ("ceffffffff", I(2 ** 32 - 1)),
        ("cf0000000100000000", I(2 ** 32)), ("cfffffffffffffffff", I(2 ** 64 - 1)),
        ("d0df", I(-33)), ("d080", I(-128)), ("d1ff7f", I(-129)), ("d18000", I(-32768)), ("d2ffff7fff", I(-32769)),
        ("d280000000", I(-2 ** 31)), ("d3ffffffff7fffffff", I(-2 ** 31 - 1)), ("d38000000000000000", I(-2 ** 63)),
        ("c0", NULL), ("c2", FALSE), ("c3", TRUE),
        ("ca3f800000", F(1.0, 32)), ("cb3ff199999999999a", F(1.1, 64)), ("ca7fc00000", F(NAN, 32)),
        ("a0", T("")), ("a161", T("a")), ("bf" + "61" * 31, T("a" * 31)), ("d920" + "61" * 32, T("a" * 32)),
        ("da0100" + "61" * 256, T("a" * 256)), ("a3e6b0b4", T("水")),
        ("c400", B("")), ("c403010203", B("010203")), ("c50100" + "00" * 256, B("00" * 256)),
        ("90", A()), ("93010203", A(I(1), I(2), I(3))), ("dc0010" + "c0" * 16, A(*[NULL] * 16)),
        ("80", M()), ("81a16101", M(T("a"), I(1))), ("de0010" + "01c0" * 16, M(*[I(1), NULL] * 16)),
        ("d40501", ("ext", 5, b"\x01")), ("d5800102", ("ext", -128, b"\x01\x02")),
        ("d6ff5a4af6a5", ("ext", -1, H("5a4af6a5"))),                                         # timestamp 32
        ("d7ff" + "00" * 8, ("ext", -1, bytes(8))), ("c70cff" + "11" * 12, ("ext", -1, b"\x11" * 12)),   # ts 64 / 96
        ("d87f" + "22" * 16, ("ext", 127, b"\x22" * 16)), ("c70001", ("ext", 1, b"")), ("c7030a010203", ("ext", 10, H("010203"))),
        ("c8010001" + "00" * 256, ("ext", 1, bytes(256))),
    ]
    for hx, val in ok:
        r = expect_ok(m, H(hx), val)
        check("nonminimal" not in r.features, hx, r)
        check(m.encode(val) == H(hx), "canonical encode", hx, m.encode(val).hex())
    wide = [("cc05", I(5)), ("d005", I(5)), ("d0ff", I(-1)), ("cd00ff", I(255)), ("d100c8", I(200)), ("d1ff80", I(-128)),
            ("cf0000000000000001", I(1)), ("d3ffffffffffffffff", I(-1)), ("d37fffffffffffffff", I(2 ** 63 - 1)),
            ("d90161", T("a")), ("da000161", T("a")), ("db0000000161", T("a")), ("c5000100", B("00")),
            ("c60000000100", B("00")), ("dc0000", A()), ("dd00000000", A()), ("de0000", M()), ("df00000000", M()),
            ("c7010501", ("ext", 5, b"\x01")), ("c8000301aabbcc", ("ext", 1, H("aabbcc"))), ("c90000000001", ("ext", 1, b""))]
    for hx, val in wide:
        expect_ok(m, H(hx), val, feats=["nonminimal"])
    expect_ok(m, H("81c0c0"), M(NULL, NULL), feats=["non-text-key"], jsonlike=False)
    expect_ok(m, H("d40000"), ("ext", 0, b"\x00"), feats=["ext", "ext:0"], jsonlike=False)
    expect_ok(m, H("82a16101a16102"), M(T("a"), I(1), T("a"), I(2)), feats=["dup-keys"], jsonlike=True)
    expect_ok(m, H("c0c1"), NULL, consumed=1)
    expect_bad(m, H("c1"), "reserved-c1")
    expect_bad(m, H("92c0c1"), "reserved-c1")
    for hx in ("a180", "a2c080", "a3eda080", "a4f4908080", "d901ff", "da0001c3", "81a1ff00"):
        expect_bad(m, H(hx), "invalid-utf8")
    for hx in ("", "cc", "cd00", "ce000000", "cf00000000000000", "d0", "d3ff", "ca0000", "cb", "a1", "d9", "d905", "da00",
               "c4", "c401", "c6000000", "91", "dc", "dc0001", "dd00000001", "81", "81a161", "de", "df00000001c0",
               "d4", "d401", "d801" + "00" * 15, "c7", "c701", "c70101", "c8", "c9000000"):
        expect_bad(m, H(hx), "truncated")
    expect_bad(m, H("91" * 1025 + "c0"), "nesting")
    expect_bad(m, H("81a0" * 3 + "c0"), "nesting", max_depth=2)
    expect_ok(m, H("91" * 1024 + "c0"), nest("array", 1024, NULL))
    check(m.decode(H("91" * 1100 + "c0"), max_depth=1100).ok)
    for v in (I(2 ** 64), I(-2 ** 63 - 1), F(1.0, 16), UNDEF, TAG(1, I(0)), ("simple", 3), ("ext", 128, b""),
              ("ext", -129, b""), ("hpn", b"1"), ("text", b"\xc0\x80")):
        expect_valueerror(m, v)


# --------------------------------------------------------------------------- UBJSON vectors

def test_ubjson_vectors():
    u = ubjson_ref
    f32 = lambda x: struct.pack(">f", x)
    ok = [
        (b"Z", NULL), (b"T", TRUE), (b"F", FALSE), (b"i\x00", I(0)), (b"i\x7f", I(127)), (b"i\x80", I(-128)),
        (b"U\x80", I(128)), (b"U\xff", I(255)), (b"I\x01\x00", I(256)), (b"I\x7f\xff", I(32767)), (b"I\xff\x7f", I(-129)),
        (b"l\x00\x00\x80\x00", I(32768)), (b"l\x80\x00\x00\x00", I(-2 ** 31)),
        (b"L\x00\x00\x00\x00\x80\x00\x00\x00", I(2 ** 31)), (b"L\x80" + bytes(7), I(-2 ** 63)),
        (b"L\x7f" + b"\xff" * 7, I(2 ** 63 - 1)),
        (b"d\x3f\x80\x00\x00", F(1.0, 32)), (b"D\x3f\xf1\x99\x99\x99\x99\x99\x9a", F(1.1, 64)),
        (b"Si\x00", T("")), (b"Si\x05hello", T("hello")), (b"Si\x03\xe6\xb0\xb4", T("水")),
        (b"SU\x80" + b"a" * 128, T("a" * 128)), (b"SI\x01\x00" + b"a" * 256, T("a" * 256)),
        (b"Hi\x011", ("hpn", b"1")), (b"Hi\x16-1.23456789012345e+400", ("hpn", b"-1.23456789012345e+400")),
        (b"[]", A()), (b"{}", M()), (b"[i\x01i\x02]", A(I(1), I(2))), (b"{i\x01ai\x01}", M(T("a"), I(1))),
        (b"[[][{}]]", A(A(), A(M()))), (b"{i\x00Z}", M(T(""), NULL)),
    ]
    for data, val in ok:
        r = expect_ok(u, data, val, jsonlike=True)
        check("nonminimal" not in r.features, data, r)
        check(u.encode(val) == data, "canonical encode", data, u.encode(val))
    expect_ok(u, b"Ca", T("a"), feats=["char"])
    expect_ok(u, b"U\x05", I(5), feats=["int:U"])
    for data, val in ((b"I\x00\x05", I(5)), (b"l\xff\xff\xff\xff", I(-1)), (b"L" + bytes(7) + b"\xff", I(255)),
                      (b"SI\x00\x01a", T("a")), (b"SL" + bytes(8), T("")), (b"[#l\x00\x00\x00\x00", A())):
        expect_ok(u, data, val, feats=["nonminimal"])
    # Draft 12 container optimisation examples (ubjson.org "Container Types")
    five = [29.97, 31.13, 67.0, 2.113, 23.8889]
    expect_ok(u, b"[$d#i\x05" + b"".join(f32(x) for x in five), A(*[F(x, 32) for x in five]), feats=["typed-container"])
    expect_ok(u, b"[#i\x05" + b"".join(b"d" + f32(x) for x in five), A(*[F(x, 32) for x in five]), feats=["counted-container"])
    expect_ok(u, b"{$d#i\x03i\x03lat" + f32(29.976) + b"i\x04long" + f32(31.131) + b"i\x03alt" + f32(67.0),
              M(T("lat"), F(29.976, 32), T("long"), F(31.131, 32), T("alt"), F(67.0, 32)), feats=["typed-container"])
    expect_ok(u, b"{#i\x03i\x03latd" + f32(29.976) + b"i\x04longd" + f32(31.131) + b"i\x03altd" + f32(67.0),
              M(T("lat"), F(29.976, 32), T("long"), F(31.131, 32), T("alt"), F(67.0, 32)), feats=["counted-container"])
    expect_ok(u, b"[$Z#I\x02\x00", A(*[NULL] * 512), feats=["typed-container"])
    expect_ok(u, b"{$Z#i\x03i\x04namei\x08passwordi\x05email", M(T("name"), NULL, T("password"), NULL, T("email"), NULL))
    expect_ok(u, b"[$T#i\x02", A(TRUE, TRUE))
    expect_ok(u, b"[$F#i\x00", A())
    expect_ok(u, b"[$U#i\x03\x01\x80\xff", A(I(1), I(128), I(255)), feats=["typed-uint8-array"])
    expect_ok(u, b"[$C#i\x02ab", A(T("a"), T("b")))
    expect_ok(u, b"[$S#i\x02i\x01ai\x00", A(T("a"), T("")))
    expect_ok(u, b"[$H#i\x01i\x0212", A(("hpn", b"12")))
    expect_ok(u, b"[$[#i\x02]$i#i\x01\x07", A(A(), A(I(7))))
    expect_ok(u, b"[${#i\x02}#i\x01i\x01kT", A(M(), M(T("k"), TRUE)))
    expect_ok(u, b"[#i\x00", A())
    expect_ok(u, b"{#i\x00Z", M(), consumed=4)
    # no-ops
    expect_ok(u, b"[NNi\x01Ni\x02N]", A(I(1), I(2)), feats=["noop"])
    expect_ok(u, b"{Ni\x01aZN}", M(T("a"), NULL), feats=["noop"])
    expect_ok(u, b"NNZ", NULL, feats=["noop"])
    expect_ok(u, b"[#i\x01NZ", A(NULL), feats=["noop", "noop-in-counted"])
    expect_ok(u, b"{i\x01aNZ}", M(T("a"), NULL), feats=["noop-before-value"])
    expect_ok(u, b"{i\x01aZi\x01aT}", M(T("a"), NULL, T("a"), TRUE), feats=["dup-keys"])
    expect_ok(u, b"ZZ", NULL, consumed=1)
    # ill-formed
    for data in (b"", b"N", b"i", b"I\x00", b"l\x00\x00\x00", b"L" + bytes(7), b"d\x00", b"D", b"C", b"S", b"Si", b"Si\x02a",
                 b"H", b"Hi\x031.", b"[", b"[i\x01", b"{", b"{i\x01a", b"{i\x01", b"{i\x02a", b"[$", b"[$i", b"[$i#", b"[$i#i",
                 b"[$i#i\x02\x01", b"[#", b"[#i\x02Z", b"{$Z#i\x01", b"{#i\x01i\x01a", b"[[]", b"[$[#i\x01"):
        expect_bad(u, data, "truncated")
    for data in (b"]", b"}", b"$", b"#", b"X", b"\x00", b"[}", b"{i\x01a]", b"{i\x01a}", b"[#i\x01]", b"[$N#i\x01", b"[$]#i\x00",
                 b"[$##i\x00", b"[$$#i\x00", b"[$X#i\x00", b"[u"):
        expect_bad(u, data, "bad-type-marker")
    for data in (b"Si\xff", b"SS", b"Sd\x00\x00\x00\x00", b"SL\x80" + bytes(7), b"[#i\xff", b"[#Z", b"[$i#I\xff\xff", b"{#l\xff\xff\xff\xff",
                 b"{Z", b"{Si\x01aZ}", b"{i\xffa", b"Hi\x80", b"HT", b"[$S#i\x01T"):
        expect_bad(u, data, "bad-length")
    for data in (b"[$i]", b"[$ii\x01", b"{$Zi\x01a}", b"[$Z]", b"[$ZN#i\x00"):
        expect_bad(u, data, "type-without-count")
    for data in (b"Si\x01\x80", b"Si\x02\xc0\x80", b"Si\x03\xed\xa0\x80", b"{i\x01\xffZ}", b"[$S#i\x01i\x01\xfe", b"Si\x04\xf4\x90\x80\x80"):
        expect_bad(u, data, "invalid-utf8")
    for txt in (b"", b"01", b"+1", b"1.", b".5", b"1e", b"1e+", b"-", b"NaN", b"Infinity", b"1 ", b" 1", b"0x10", b"1,0", b"\xc3\xa9", b"--1", b"1.5.2"):
        expect_bad(u, b"Hi" + bytes([len(txt)]) + txt, "bad-hpn")
    for txt in (b"0", b"-0", b"0.0", b"10", b"-1.5e-10", b"1E5", b"1e+05", b"123456789012345678901234567890"):
        expect_ok(u, b"Hi" + bytes([len(txt)]) + txt, ("hpn", txt), feats=["hpn"], jsonlike=True)
    expect_bad(u, b"C\x80", "bad-char")
    expect_bad(u, b"[$C#i\x01\xff", "bad-char")
    expect_ok(u, b"C\x7f", T("\x7f"))
    expect_ok(u, b"C\x00", T("\x00"))
    expect_bad(u, b"[$Z#L\x40" + bytes(7), "count-limit")
    expect_bad(u, b"[$T#l\x7f\xff\xff\xff", "count-limit")
    expect_ok(u, b"[$F#l\x00\x00\x10\x00", A(*[FALSE] * 4096))
    expect_bad(u, b"[$Z#i\x05", "count-limit", max_count=4)
    expect_bad(u, b"[" * 1025, "nesting")
    expect_bad(u, b"{i\x00" * 1025, "nesting")
    expect_bad(u, b"[$[#i\x01" * 3, "nesting", max_depth=2)
    expect_ok(u, b"[" * 1024 + b"]" * 1024, nest("array", 1024, A())[1][0])
    check(u.decode(b"[" * 1100 + b"]" * 1100, max_depth=1100).ok)
    for v in (I(2 ** 63), I(-2 ** 63 - 1), F(1.0, 16), B("00"), UNDEF, TAG(1, I(0)), ("ext", 1, b""), ("hpn", b"01"),
              ("hpn", b"NaN"), M(I(1), I(2)), ("text", b"\x80")):
        expect_valueerror(u, v)


# --------------------------------------------------------------------------- BSON vectors

def i32(n): return struct.pack("<i", n)
def rawdoc(body, delta=0, term=b"\x00"): return i32(len(body) + 5 + delta) + body + term
def el(t, name, payload=b""): return bytes([t]) + name + b"\x00" + payload
def bstr(b): return i32(len(b) + 1) + b + b"\x00"
def BS(kind, p): return ("bson", kind, p)


def test_bson_vectors():
    b = bson_ref
    # bsonspec.org examples
    expect_ok(b, b"\x16\x00\x00\x00\x02hello\x00\x06\x00\x00\x00world\x00\x00", M(T("hello"), T("world")), jsonlike=True)
    ex2 = (b"\x31\x00\x00\x00\x04BSON\x00\x26\x00\x00\x00\x02\x30\x00\x08\x00\x00\x00awesome\x00"
           b"\x01\x31\x00\x33\x33\x33\x33\x33\x33\x14\x40\x10\x32\x00\xc2\x07\x00\x00\x00\x00")
    v2 = M(T("BSON"), A(T("awesome"), F(5.05, 64), I(1986)))
    expect_ok(b, ex2, v2, feats=["int32", "float64"], jsonlike=True)
    check(b.encode(v2) == ex2 and b.encode(M(T("hello"), T("world")))[:4] == b"\x16\x00\x00\x00")
    expect_ok(b, b"\x05\x00\x00\x00\x00", M())
    expect_ok(b, b"\x05\x00\x00\x00\x00\xff\xff", M(), consumed=5)
    oid, d128 = bytes(range(12)), bytes(range(16))
    every = [
        (el(1, b"a", struct.pack("<d", 1.5)), F(1.5, 64)), (el(2, b"a", bstr(b"x\x00y")), T("x\x00y")),
        (el(2, b"a", bstr(b"")), T("")), (el(3, b"a", rawdoc(el(10, b"n"))), M(T("n"), NULL)),
        (el(4, b"a", rawdoc(el(8, b"0", b"\x01") + el(8, b"1", b"\x00"))), A(TRUE, FALSE)),
        (el(5, b"a", i32(3) + b"\x80abc"), BS("binary", (0x80, b"abc"))), (el(5, b"a", i32(0) + b"\x00"), BS("binary", (0, b""))),
        (el(5, b"a", i32(6) + b"\x02" + i32(2) + b"hi"), BS("binary", (2, i32(2) + b"hi"))),
        (el(6, b"a"), UNDEF), (el(7, b"a", oid), BS("objectid", oid)), (el(9, b"a", struct.pack("<q", -1)), BS("datetime", -1)),
        (el(10, b"a"), NULL), (el(11, b"a", b"^a.*\x00im\x00"), BS("regex", (b"^a.*", b"im"))), (el(11, b"a", b"\x00\x00"), BS("regex", (b"", b""))),
        (el(12, b"a", bstr(b"db.c") + oid), BS("dbpointer", (b"db.c", oid))), (el(13, b"a", bstr(b"f()")), BS("code", b"f()")),
        (el(14, b"a", bstr(b"sym")), BS("symbol", b"sym")),
        (el(15, b"a", i32(4 + 8 + 12) + bstr(b"f()") + rawdoc(el(16, b"x", i32(1)))), BS("code_w_scope", (b"f()", M(T("x"), I(1))))),
        (el(16, b"a", i32(-2 ** 31)), I(-2 ** 31)), (el(17, b"a", b"\xff" * 8), BS("timestamp", 2 ** 64 - 1)),
        (el(18, b"a", struct.pack("<q", 2 ** 63 - 1)), I(2 ** 63 - 1)), (el(19, b"a", d128), BS("decimal128", d128)),
        (el(0xFF, b"a"), BS("minkey", None)), (el(0x7F, b"a"), BS("maxkey", None)), (el(8, b"\xc3\xbc", b"\x01"), None),
    ]
    for body, val in every:
        doc = rawdoc(body)
        want = M(T("a"), val) if val is not None else M(T("ü"), TRUE)
        r = expect_ok(b, doc, want)
        check(r.jsonlike == (val is None or val[0] not in ("bson", "undefined")), "jsonlike", r)
        check(b.encode(want) == doc, "encode", doc.hex(), b.encode(want).hex())
    expect_ok(b, rawdoc(el(18, b"a", struct.pack("<q", 1))), M(T("a"), I(1)), feats=["int64"])
    expect_ok(b, rawdoc(el(4, b"a", rawdoc(el(10, b"1") + el(10, b"0")))), M(T("a"), A(NULL, NULL)), feats=["bson-array-bad-keys"])
    expect_ok(b, rawdoc(el(4, b"a", rawdoc(el(10, b"00")))), M(T("a"), A(NULL)), feats=["bson-array-bad-keys"])
    expect_ok(b, rawdoc(el(10, b"a") + el(8, b"a", b"\x00")), M(T("a"), NULL, T("a"), FALSE), feats=["dup-keys"])
    expect_ok(b, rawdoc(el(10, b"")), M(T(""), NULL))
    # ill-formed, one block per reason
    for data in (b"", b"\x05", b"\x05\x00\x00", b"\x05\x00\x00\x00", b"\x06\x00\x00\x00\x00", b"\xff\xff\xff\x7f" + bytes(100), ex2[:-1]):
        expect_bad(b, data, "truncated")
    nested_over = rawdoc(el(3, b"a", i32(6) + b"\x00"))                    # inner claims 6, parent leaves 5
    for data in (b"\x04\x00\x00\x00\x00", b"\x00\x00\x00\x00\x00", b"\xff\xff\xff\xff" + bytes(8), b"\x06\x00\x00\x00\x00\x00",
                 rawdoc(el(10, b"a") + b"\x00"), nested_over, rawdoc(el(3, b"a", i32(4) + b"\x00")), rawdoc(el(3, b"a", i32(-1) + b"\x00")),
                 rawdoc(el(16, b"a", b"\x01\x00\x00")), rawdoc(el(1, b"a", bytes(7))), rawdoc(el(7, b"a", bytes(11))),
                 rawdoc(el(2, b"a", b"\x01\x00")), rawdoc(el(8, b"a")), rawdoc(el(3, b"a", b"\x05\x00\x00")),
                 rawdoc(el(19, b"a", bytes(15))), rawdoc(el(12, b"a", bstr(b"") + bytes(11)))):
        expect_bad(b, data, "bad-doc-length")
    for data in (b"\x05\x00\x00\x00\x01", rawdoc(el(10, b"a"), term=b"\x01"), rawdoc(el(3, b"a", rawdoc(b"", term=b"\x07")))):
        expect_bad(b, data, "missing-terminator")
    for data in (rawdoc(b"\x0aab", delta=-1, term=b""), rawdoc(b"\x0a"), rawdoc(b"\x0bk\x00abc"), rawdoc(b"\x0bk\x00abc\x00xyz"),
                 rawdoc(b"\x0a", term=b"\x00")):
        expect_bad(b, data, "bad-cstring")
    for data in (rawdoc(el(2, b"a", i32(0))), rawdoc(el(2, b"a", i32(-1) + b"\x00")), rawdoc(el(2, b"a", i32(2) + b"ab")),
                 rawdoc(el(2, b"a", i32(3) + b"a\x00")), rawdoc(el(13, b"a", i32(0))), rawdoc(el(14, b"a", i32(1) + b"x")),
                 rawdoc(el(12, b"a", i32(0) + bytes(12))), rawdoc(el(2, b"a", i32(0x7fffffff) + b"a\x00"))):
        expect_bad(b, data, "bad-string-length")
    for data in (rawdoc(el(5, b"a", i32(-1) + b"\x00")), rawdoc(el(5, b"a", i32(2) + b"\x00a")), rawdoc(el(5, b"a", i32(0)))):
        expect_bad(b, data, "bad-binary-length")
    cws = lambda tot, code, scope: rawdoc(el(15, b"a", i32(tot) + code + scope))
    for data in (cws(13, bstr(b""), rawdoc(b"")), cws(15, bstr(b""), rawdoc(b"")), cws(100, bstr(b""), rawdoc(b"")),
                 cws(-1, bstr(b""), rawdoc(b"")), cws(15, bstr(b""), rawdoc(b"") + b"\x00")):
        expect_bad(b, data, "bad-cws-length")
    check(b.decode(cws(14, bstr(b""), rawdoc(b""))).ok)
    for t in (0x14, 0x15, 0x20, 0x7E, 0x80, 0xFE):
        expect_bad(b, rawdoc(el(t, b"a", bytes(16))), "bad-type")
    for x in (2, 0x80, 0xFF):
        expect_bad(b, rawdoc(el(8, b"a", bytes([x]))), "bad-bool")
    for data in (rawdoc(el(10, b"\xff")), rawdoc(el(10, b"\xc0\x80")), rawdoc(el(2, b"a", bstr(b"\xed\xa0\x80"))),
                 rawdoc(el(11, b"a", b"\xff\x00\x00")), rawdoc(el(11, b"a", b"\x00\xff\x00")), rawdoc(el(13, b"a", bstr(b"\x80"))),
                 rawdoc(el(14, b"a", bstr(b"\xf4\x90\x80\x80"))), rawdoc(el(3, b"a", rawdoc(el(10, b"\xfe"))))):
        expect_bad(b, data, "invalid-utf8")
    deep = lambda n: b.encode(nest("map", n, M()))
    expect_bad(b, deep(1024), "nesting")                                   # 1025 documents in total
    check(b.decode(deep(1023)).ok)
    expect_bad(b, deep(3), "nesting", max_depth=3)
    check(b.decode(deep(1099), max_depth=1100).ok)
    for v in (I(1), A(), NULL, M(I(1), I(2)), M(T("a\x00b"), NULL), M(T("a"), I(2 ** 63)), M(T("a"), I(-2 ** 63 - 1)),
              M(T("a"), F(1.0, 32)), M(T("a"), TAG(1, I(0))), M(T("a"), ("ext", 1, b"")), M(T("a"), ("hpn", b"1")),
              M(T("a"), BS("objectid", b"123")), M(T("a"), BS("regex", (b"a\x00", b""))), M(T("a"), BS("timestamp", -1)),
              M(T("a"), BS("nonsense", None)), M(("text", b"\xff"), NULL)):
        expect_valueerror(b, v)
    check(b.decode(b.encode(M(T("a"), B("0102")))).value == M(T("a"), BS("binary", (0, b"\x01\x02"))))


# --------------------------------------------------------------------------- randomized

def test_roundtrip(name, mod, n, seed):
    rng = random.Random(seed)
    seen = set()
    nonjson = 0
    for i in range(n):
        jsonlike = i % 3 != 0
        v = mod.gen_value(rng, 3, jsonlike)
        e = mod.encode(v, rng, 0.7)
        r = mod.decode(e)
        check(r.ok and r.value == v and r.consumed == len(e), name, "roundtrip", v, e.hex(), r)
        if jsonlike:
            check(r.jsonlike, name, "gen_value(jsonlike=True) decoded as non-jsonlike", v)
        nonjson += not r.jsonlike
        seen |= {f.split(":")[0] for f in r.features}
        if i % 4 == 0:                                   # canonical spelling + trailing garbage
            e0 = mod.encode(v)
            r0 = mod.decode(e0 + b"\xc1\xff")
            check(r0.ok and r0.value == v and r0.consumed == len(e0), name, "canonical", v)
            # canonical is also the shortest spelling, except UBJSON where 'C' and $type#count are shorter
            check(len(e0) <= len(e) or name == "ubjson", name, "canonical not shortest", v)
            check(not ({"nonminimal", "indefinite", "counted-container", "typed-container", "noop"} & r0.features)
                  or name == "bson", name, "canonical encoding has variety features", r0)
            check(mod.encode(v, rng, 0.0) == e0 and mod.encode(v, None, 0.9) == e0)
    check(nonjson > n // 20 or name == "ubjson", name, "too few non-jsonlike values", nonjson)
    return seen


def test_prefixes(name, mod, n, seed):
    rng = random.Random(seed)
    done = total = 0
    while done < n:
        e = mod.encode(mod.gen_value(rng, 3, done % 2 == 0), rng, 0.7)
        if len(e) > 400:
            continue
        done += 1
        for k in range(len(e)):
            r = mod.decode(e[:k])
            total += 1
            check(r.status == "illformed" and r.reason == "truncated", name, "prefix", k, e.hex(), r)
    return total


def test_never_raises(name, mod, n, seed):
    rng = random.Random(seed)
    stats = {}
    rb = rng.randbytes
    for _ in range(n):
        data = rb(rng.randint(0, 12))
        try:
            r = mod.decode(data)
        except Exception as ex:                          # noqa: BLE001
            raise AssertionError("%s.decode(%s) raised %r" % (name, data.hex(), ex))
        check(r.status in ("ok", "illformed") and (r.ok or isinstance(r.reason, str)), name, data.hex(), r)
        if r.ok:
            check(0 < r.consumed <= len(data), name, data.hex(), r)
            if name != "ubjson" or "noop" not in r.features:   # re-encode what we understood and compare
                check(mod.decode(mod.encode(r.value)).value == r.value, name, "re-encode", data.hex(), r)
        stats[r.reason or "ok"] = stats.get(r.reason or "ok", 0) + 1
    return stats


def test_mutations(name, mod, n, seed):
    """Valid encodings with a few bytes overwritten / inserted / deleted: must never raise."""
    rng = random.Random(seed)
    stats = {}
    for i in range(n):
        e = bytearray(mod.encode(mod.gen_value(rng, 2, i % 2 == 0), rng, 0.7))
        for _ in range(rng.randint(1, 3)):
            if not e:
                break
            p = rng.randrange(len(e))
            op = rng.randrange(4)
            if op == 0:
                e[p] = rng.getrandbits(8)
            elif op == 1:
                e[p] ^= 1 << rng.randrange(8)
            elif op == 2:
                del e[p]
            else:
                e.insert(p, rng.choice((0x00, 0xFF, 0x7F, 0x80, 0xC1, 0x5F, 0x24, 0x23, 0x4E)))
        try:
            r = mod.decode(bytes(e))
        except Exception as ex:                          # noqa: BLE001
            raise AssertionError("%s.decode(%s) raised %r" % (name, bytes(e).hex(), ex))
        if r.ok:
            check(0 < r.consumed <= len(e), name, r)
            r2 = mod.decode(mod.encode(r.value, rng, 0.7))
            check(r2.ok and r2.value == r.value, name, "mutation re-encode", bytes(e).hex())
        stats[r.reason or "ok"] = stats.get(r.reason or "ok", 0) + 1
    return stats


def main():
    t0 = time.time()
    quick = "--quick" in sys.argv
    scale = 10 if quick else 1
    test_rv()
    test_cbor_vectors()
    test_msgpack_vectors()
    test_ubjson_vectors()
    test_bson_vectors()
    print("vectors: rv, cbor (%d App.A + App.F), msgpack, ubjson, bson passed  [%.1fs]" % (len(APP_A), time.time() - t0))
    want_feats = {"cbor": {"indefinite", "nonminimal", "tag", "float16", "float32", "float64", "dup-keys", "non-text-key",
                           "undefined", "simple"},
                  "msgpack": {"nonminimal", "float32", "float64", "dup-keys", "non-text-key", "ext"},
                  "ubjson": {"nonminimal", "float32", "float64", "dup-keys", "hpn", "typed-container", "counted-container",
                             "typed-uint8-array", "noop", "char", "int"},
                  "bson": {"int32", "int64", "float64", "dup-keys", "bson", "undefined", "binary-subtype"}}
    for idx, (name, mod) in enumerate(MODS):
        t1 = time.time()
        seen = test_roundtrip(name, mod, 20000 // scale, 1000 + idx)
        check(want_feats[name] <= seen, name, "features never produced:", want_feats[name] - seen)
        npre = test_prefixes(name, mod, 2000 // scale, 2000 + idx)
        stats = test_never_raises(name, mod, 200000 // scale, 3000 + idx)
        mstats = test_mutations(name, mod, 20000 // scale, 4000 + idx)
        print("%-8s roundtrip ok; %d prefixes truncated; random bytes: %s; mutations: %s  [%.1fs]" % (
            name, npre, fmt(stats), fmt(mstats), time.time() - t1))
    print("total %.1fs" % (time.time() - t0))
    print("OK")


def fmt(stats):
    return " ".join("%s=%d" % kv for kv in sorted(stats.items(), key=lambda kv: -kv[1]))


if __name__ == "__main__":
    main()
