"""Shared reference-value (RV) representation and helpers for the reference codecs.

An RV is a plain tuple:
  ("null",) ("undefined",) ("bool", b) ("int", n)
  ("float", bits, width)        bits = IEEE-754 pattern as encoded, width in {16,32,64}
  ("text", utf8_bytes) ("bytes", b)
  ("array", [rv, ...])  ("map", [(key_rv, value_rv), ...])   order + duplicates preserved
  ("tag", number, rv)   ("simple", n)             CBOR only
  ("ext", type, payload)                          MessagePack only (incl. timestamp -1)
  ("hpn", ascii_bytes)                            UBJSON high-precision number
  ("bson", kind, payload)                         BSON scalars with no JSON analogue

Pure standard library.  No knowledge of the library under test is used here.
"""
import struct
import sys

# Decoders/encoders are recursive (one or two Python frames per nesting level).
# Python 3.11 does not consume C stack for pure Python->Python calls, so this is safe.
if sys.getrecursionlimit() < 20000:
    sys.setrecursionlimit(20000)


# --------------------------------------------------------------------------- results

class Illformed(Exception):
    """Raised inside decoders; turned into Result(status="illformed") by run()."""

    def __init__(self, reason):
        Exception.__init__(self, reason)
        self.reason = reason


class Result:
    """Outcome of decode().  status is "ok" or "illformed".

    ok:        value, consumed (bytes of the first complete item), jsonlike, features
    illformed: reason (first offending construct), offset (reader position when the
               problem was detected, approximate), consumed == 0
    """
    __slots__ = ("status", "value", "consumed", "reason", "jsonlike", "features", "offset")

    def __init__(self, status, value=None, consumed=0, reason=None, jsonlike=None,
                 features=None, offset=None):
        self.status, self.value, self.consumed, self.reason = status, value, consumed, reason
        self.jsonlike, self.features, self.offset = jsonlike, features if features is not None else set(), offset

    @property
    def ok(self):
        return self.status == "ok"

    def __repr__(self):
        if self.ok:
            return "Result(ok, consumed=%d, jsonlike=%s, features=%s, value=%r)" % (
                self.consumed, self.jsonlike, sorted(self.features), self.value)
        return "Result(illformed, reason=%r, offset=%r)" % (self.reason, self.offset)


class Reader:
    """Bounds-checked big-endian cursor; running off the end => Illformed("truncated")."""
    __slots__ = ("d", "p", "n")

    def __init__(self, data):
        self.d = bytes(data)
        self.p = 0
        self.n = len(self.d)

    def take(self, k):
        p = self.p
        if k > self.n - p:
            raise Illformed("truncated")
        self.p = p + k
        return self.d[p:p + k]

    def u8(self):
        p = self.p
        if p >= self.n:
            raise Illformed("truncated")
        self.p = p + 1
        return self.d[p]

    def peek(self):
        if self.p >= self.n:
            raise Illformed("truncated")
        return self.d[self.p]

    def uint(self, k):
        return int.from_bytes(self.take(k), "big")

    def sint(self, k):
        return int.from_bytes(self.take(k), "big", signed=True)


def run(dec, parse):
    """Call parse() (-> RV) of decoder object `dec` (which provides pos() and .feats) and wrap
    the outcome in a Result.  Decoders never let an exception escape: Illformed becomes an
    "illformed" Result, and exhausting the Python stack (only possible when the caller passes
    a max_depth in the thousands) is reported as "nesting"."""
    try:
        value = parse()
    except Illformed as e:
        return Result("illformed", reason=e.reason, offset=dec.pos())
    except RecursionError:
        return Result("illformed", reason="nesting", offset=dec.pos())
    jsonlike, vfeats = classify(value)
    return Result("ok", value, dec.pos(), None, jsonlike, dec.feats | vfeats)


# --------------------------------------------------------------------------- floats

_FMT = {16: ">e", 32: ">f", 64: ">d"}


def float_value(bits, width):
    """IEEE-754 bit pattern -> Python float (NaN payloads are lost; compare bits instead)."""
    if width == 64:
        return struct.unpack(">d", bits.to_bytes(8, "big"))[0]
    if width == 32:
        return struct.unpack(">f", bits.to_bytes(4, "big"))[0]
    if width == 16:
        # binary16: 1 sign, 5 exponent (bias 15), 10 fraction.  Done by hand (RFC 8949 App. D).
        sign = -1.0 if bits & 0x8000 else 1.0
        exp = (bits >> 10) & 0x1F
        frac = bits & 0x3FF
        if exp == 0:                      # zero / subnormal: frac * 2^-24 (keeps -0.0)
            return sign * frac * 2.0 ** -24
        if exp == 31:
            return sign * float("inf") if frac == 0 else float("nan")
        return sign * (1.0 + frac / 1024.0) * 2.0 ** (exp - 15)
    raise ValueError("bad float width %r" % (width,))


def float_bits(x, width):
    """Python float -> bit pattern at `width` (round-to-nearest; OverflowError if out of range)."""
    return int.from_bytes(struct.pack(_FMT[width], x), "big")


def float_is_nan(bits, width):
    ebits, mbits = {16: (5, 10), 32: (8, 23), 64: (11, 52)}[width]
    return (bits >> mbits) & ((1 << ebits) - 1) == (1 << ebits) - 1 and bits & ((1 << mbits) - 1) != 0


def mkfloat(x, width=64):
    return ("float", float_bits(x, width), width)


# --------------------------------------------------------------------------- UTF-8

def utf8_valid(b):
    """Strict RFC 3629 check (CPython's strict decoder rejects overlongs, surrogates, > U+10FFFF)."""
    try:
        b.decode("utf-8")
        return True
    except UnicodeDecodeError:
        return False


def utf8_valid_manual(b):
    """Hand-written RFC 3629 validator (table 3-7 of Unicode / RFC 3629 section 4 ABNF).
    Used by the self-test to cross-check utf8_valid()."""
    i, n = 0, len(b)
    while i < n:
        c = b[i]
        if c < 0x80:
            i += 1
            continue
        if 0xC2 <= c <= 0xDF:
            need, lo, hi = 1, 0x80, 0xBF
        elif c == 0xE0:
            need, lo, hi = 2, 0xA0, 0xBF          # no overlong 3-byte
        elif 0xE1 <= c <= 0xEC or 0xEE <= c <= 0xEF:
            need, lo, hi = 2, 0x80, 0xBF
        elif c == 0xED:
            need, lo, hi = 2, 0x80, 0x9F          # no surrogates D800..DFFF
        elif c == 0xF0:
            need, lo, hi = 3, 0x90, 0xBF          # no overlong 4-byte
        elif 0xF1 <= c <= 0xF3:
            need, lo, hi = 3, 0x80, 0xBF
        elif c == 0xF4:
            need, lo, hi = 3, 0x80, 0x8F          # <= U+10FFFF
        else:
            return False                          # 80..C1, F5..FF
        if i + need >= n:                         # sequence truncated
            return False
        if not lo <= b[i + 1] <= hi:
            return False
        for j in range(2, need + 1):
            if not 0x80 <= b[i + j] <= 0xBF:
                return False
        i += need + 1
    return True


def utf8_boundaries(b):
    """All offsets at which a valid UTF-8 string may be split (0 and len included)."""
    return [i for i in range(len(b)) if b[i] & 0xC0 != 0x80] + [len(b)]


# --------------------------------------------------------------------------- classification

def freeze(v):
    """Hashable deep copy of an RV (lists -> tuples); used for duplicate-key detection."""
    if isinstance(v, (list, tuple)):
        return tuple(freeze(x) for x in v)
    return v


def classify(value):
    """-> (jsonlike, features) derived from the VALUE alone (iterative, any depth).

    jsonlike: only null/bool/int/float/text/bytes/array/map-with-text-keys, plus CBOR tags
    and UBJSON hpn.  Value-derived features: float16/float32/float64, tag:<n>, dup-keys
    (two keys of one map that are equal as RVs), non-text-key, undefined, simple, ext,
    ext:<type>, hpn, bson:<kind>."""
    jsonlike = True
    feats = set()
    stack = [value]
    while stack:
        v = stack.pop()
        k = v[0]
        if k in ("null", "bool", "int", "text", "bytes"):
            continue
        if k == "float":
            feats.add("float%d" % v[2])
        elif k == "array":
            stack.extend(v[1])
        elif k == "map":
            seen = set()
            for key, val in v[1]:
                if key[0] == "text":
                    fk = key
                else:
                    jsonlike = False
                    feats.add("non-text-key")
                    fk = freeze(key)
                    stack.append(key)
                if fk in seen:
                    feats.add("dup-keys")
                seen.add(fk)
                stack.append(val)
        elif k == "tag":
            feats.add("tag:%d" % v[1])
            stack.append(v[2])
        elif k == "hpn":
            feats.add("hpn")
        elif k == "undefined":
            jsonlike = False
            feats.add("undefined")
        elif k == "simple":
            jsonlike = False
            feats.add("simple")
        elif k == "ext":
            jsonlike = False
            feats.add("ext")
            feats.add("ext:%d" % v[1])
        elif k == "bson":
            jsonlike = False
            feats.add("bson:" + v[1])
        else:
            raise ValueError("not an RV: %r" % (v,))
    return jsonlike, feats


# --------------------------------------------------------------------------- generators
# Boundary-biased random building blocks shared by the per-format gen_value functions.

_EDGES = [0, 1, 23, 24, 31, 32, 127, 128, 255, 256, 32767, 32768, 65535, 65536,
          2 ** 31 - 1, 2 ** 31, 2 ** 32 - 1, 2 ** 32, 2 ** 53, 2 ** 63 - 1, 2 ** 63, 2 ** 64 - 1]
INT_EDGES = _EDGES + [-1 - e for e in _EDGES]      # -1,-2,-24,-25,...,-2^63,-2^63-1,-2^64


def gen_int(rng, lo, hi):
    """Random int in [lo, hi] biased to encoding-width boundaries."""
    r = rng.random()
    if r < 0.6:
        n = rng.choice(INT_EDGES) + rng.choice((0, 0, 0, 1, -1, 2, -2))
    elif r < 0.8:
        n = rng.randint(-300, 300)
    else:
        n = rng.getrandbits(rng.randint(1, 64))
        if rng.random() < 0.5:
            n = -1 - n
    if not lo <= n <= hi:
        n = rng.choice((lo, hi, 0, lo + 1, hi - 1))
    return n


_CHARS = ["a", "Z", "0", " ", "\"", "\\", "/", "\n", "\x7f", "\u0080", "\u00fc", "\u07ff", "\u0800",
          "\u6c34", "\u20ac", "\ud7ff", "\ue000", "\uffff", "\U00010000", "\U00010151",
          "\U0001F600", "\U0010FFFF"]
_LENS = [0, 0, 1, 1, 2, 3, 4, 5, 7, 8, 15, 16, 23, 24, 31, 32]
_BIGLENS = [255, 256]


def gen_len(rng):
    return rng.choice(_BIGLENS) if rng.random() < 0.03 else rng.choice(_LENS)


def gen_text_bytes(rng, allow_nul=True, n=None):
    """Valid UTF-8 of exactly n bytes (n drawn from the boundary lengths when None)."""
    if n is None:
        n = gen_len(rng)
    out = bytearray()
    ascii_only = rng.random() < 0.4
    while len(out) < n:
        room = n - len(out)
        if ascii_only:
            c = rng.choice("abcxyz019 _-")
        elif allow_nul and rng.random() < 0.02:
            c = "\x00"
        else:
            c = rng.choice(_CHARS)
        e = c.encode("utf-8")
        if len(e) > room:
            e = b"." * room if room < 2 else b"\xc3\xa9"
        out += e
    return bytes(out)


def gen_bytes(rng, n=None):
    if n is None:
        n = gen_len(rng)
    return bytes(rng.getrandbits(8) for _ in range(n)) if rng.random() < 0.7 else bytes(n)


_FLT = {16: (5, 10), 32: (8, 23), 64: (11, 52)}


def gen_float(rng, widths=(16, 32, 64)):
    """("float", bits, width) covering zeros, subnormals, extremes, inf, quiet/payload NaNs."""
    w = rng.choice(widths)
    eb, mb = _FLT[w]
    emax, mall, bias = (1 << eb) - 1, (1 << mb) - 1, (1 << (eb - 1)) - 1
    k = rng.randrange(12)
    if k == 0:
        e, m = 0, 0                               # +-0
    elif k == 1:
        e, m = 0, rng.choice((1, mall, rng.randint(1, mall)))   # subnormal
    elif k == 2:
        e, m = rng.choice((1, emax - 1)), rng.choice((0, mall))  # min / max normal
    elif k == 3:
        e, m = emax, 0                            # inf
    elif k == 4:
        e, m = emax, 1 << (mb - 1)                # canonical quiet NaN
    elif k == 5:
        e, m = emax, rng.randint(1, mall)         # NaN with payload (maybe signalling)
    elif k in (6, 7):
        e, m = bias + rng.randint(-3, 3), rng.choice((0, 1 << (mb - 1), 1 << (mb - 2)))  # 1.0, 1.5, ...
    elif k == 8:
        bits = float_bits(rng.choice((1.1, -4.1, 0.1, 3.14159, 65504.0, 100000.0, 1e-5)), w) if w > 16 \
            else float_bits(rng.choice((1.1, -4.1, 0.1, 65504.0)), 16)
        return ("float", bits, w)
    else:
        e, m = rng.randint(0, emax), rng.getrandbits(mb)
    sign = rng.getrandbits(1)
    return ("float", (sign << (w - 1)) | (e << mb) | m, w)


_SIZES = [0, 1, 1, 2, 2, 3, 4]
_MIDSIZES = [15, 16, 23, 24]


def gen_size(rng):
    """Container size -> (n, big): big sizes should be filled with cheap scalar elements."""
    r = rng.random()
    if r < 0.008:
        return rng.choice((255, 256)), True
    if r < 0.15:
        return rng.choice(_MIDSIZES), True
    return rng.choice(_SIZES), False


def gen_key_text(rng, allow_nul=True):
    """Short text key; drawn from a small pool part of the time so duplicates occur."""
    if rng.random() < 0.3:
        return ("text", rng.choice((b"a", b"b", b"", b"key", b"\xc3\xbc")))
    return ("text", gen_text_bytes(rng, allow_nul, rng.choice((0, 1, 2, 3, 5, 8, 23, 24, 31, 32))))
