"""Runs a C++ 'exec' driver over a list of request dicts (JSONL on stdin -> JSONL on stdout), in parallel chunks, with
crash attribution: when a process dies, the first request without a reply is the one in flight; it is reported as an
abnormal outcome for that request and the remaining requests are resumed in a fresh process."""
import json, subprocess, os
from concurrent.futures import ThreadPoolExecutor
from . import core


def _run_chunk(exe, flagset, reqs, timeout, extra_args):
    out = {}
    i = 0
    restarts = 0
    while i < len(reqs):
        data = "\n".join(json.dumps(r, separators=(",", ":")) for r in reqs[i:]) + "\n"
        try:
            p = subprocess.run([exe] + list(extra_args), input=data.encode(), capture_output=True, timeout=timeout, env=core.run_env(flagset))
        except subprocess.TimeoutExpired:
            raise core.Inconclusive("exec driver wall-clock watchdog fired: %s" % exe)
        got = 0
        for line in p.stdout.decode("utf-8", "replace").splitlines():
            line = line.strip()
            if not line.startswith("{"):
                continue
            try:
                r = json.loads(line)
            except Exception:
                continue
            if "id" in r:
                out[r["id"]] = r
                got += 1
        if p.returncode == 0 and got >= len(reqs) - i:
            break
        # abnormal end: the request in flight is the first one without a reply
        err = p.stderr.decode("utf-8", "replace")
        missing = [r for r in reqs[i:] if r["id"] not in out]
        if not missing:
            break
        culprit = missing[0]
        sig = core.classify_sanitizer(err) or ("hang" if p.returncode == 97 else "signal/rc%s" % p.returncode)
        out[culprit["id"]] = {"id": culprit["id"], "abnormal": sig, "stderr": err[-4000:]}
        restarts += 1
        if restarts > 200:
            raise core.Inconclusive("exec driver keeps dying: %s" % exe)
        i = reqs.index(culprit) + 1
    return out


def run_requests(exe, flagset, reqs, nworkers=None, timeout=3000, extra_args=()):
    """reqs: list of dicts each with a unique 'id'. Returns dict id -> reply dict."""
    nworkers = nworkers or core.NCPU
    nworkers = max(1, min(nworkers, (len(reqs) + 199) // 200))
    chunks = [reqs[k::nworkers] for k in range(nworkers)]
    out = {}
    with ThreadPoolExecutor(max_workers=nworkers) as ex:
        for part in ex.map(lambda c: _run_chunk(exe, flagset, c, timeout, extra_args), chunks):
            out.update(part)
    return out
