from ..props import prop

prop("C15", level="exploration",
     level_text="Recorded-log monitor: valid patches of 1-12 operations (add/remove/replace/move/copy/test, operation members in any order, with members the RFC says to ignore) are generated against the "
                "EVOLVING document by simulating them with an independent RFC 6902 interpreter over Python values (vlib/ref/pointer_patch_ref.py, self-tested on RFC 6902 App. A.1-A.16); each is applied "
                "by the real jsonpatch::apply_patch (exec driver x_ptr, jsoncons::json and jsoncons::ojson, error_code and throwing overloads, ASan+UBSan) unchanged and with ONE failing element injected "
                "at EVERY position k = 0..n (failed test incl. type-confusable values, missing path, '-' / out-of-range / leading-zero / signed / overflowing array index, scalar parent, move into own "
                "child, missing from, missing op/path/value/from member, unknown op, non-object element, non-string op/path/from, malformed pointer), plus non-array patches. Oracle: the interpreter's "
                "outcome for the same (document, patch): success => the library reports success and the document equals the interpreter's result as a JSON value; failure => an error is reported "
                "(error_code, or a json_exception) AND the document equals its pre-call value (ojson: additionally the same member order, reported under its own signature). Diff law: for random, "
                "near (1-3 edits, member-order permutations, array shifts/shuffles, type changes) and identical pairs, from_diff(a, b) must be a patch that the INTERPRETER applies to a giving b, "
                "and the library's own application must succeed and give b. First diverging operation is named by re-running prefixes; rollback failures are shrunk by dropping operations.",
     level_note="Sampled, not exhaustive. Not judged (RFC 6902 leaves them open): remove with path \"\" and move of the whole document onto itself - only their atomicity on error is checked; duplicate member "
                "names inside an operation object (A.13) are never generated. A json_exception thrown through the error_code overload counts as a reported error (counted in the evidence). Member "
                "order of SUCCESSFUL results is not compared (RFC 6902 has none); after a reported error ojson member order is compared because dump() of the target is observable. Documents hold null, "
                "booleans, int64 integers, strings, arrays, objects - no floats; only the values of 'test' operations spell some integers (|n| <= 2^53) as floating-point numbers, which RFC 6902 sec. 4.6 requires to compare equal.",
     technique="runtime monitoring: recorded apply_patch/from_diff log judged offline by an independent RFC 6902 reference interpreter, failure injection at every patch position, ASan/UBSan on the executing side",
     rule="documents of depth <= 3, width <= 5 over a member-name alphabet with index-like (0, 1, 01, -), escape-relevant (a/b, m~n, ~1), empty and non-ASCII names; operations draw their locations from the "
          "document as evolved by the preceding operations: add to existing/new members, array indices 0..size and '-', whole document; moves onto themselves, inside one array (index shifting), onto "
          "siblings (overwriting), to locations of the document after removal; copies incl. the whole document; tests with member-order-permuted values; n+1 failure injections per valid patch of n "
          "operations, each checked by the interpreter to fail exactly there; distinct = distinct (policy, document, patch) texts / (policy, a, b) texts; all are non-trivial",
     assumptions=["reference RFC 6901/6902 implementation vlib/ref/pointer_patch_ref.py (pure Python, written from the RFC texts; vlib/ref/selftest_pointer_patch.py)",
                  "documents and patches travel as JSON text: json::parse / ojson::parse and dump() of null/bool/int64/string/array/object are trusted here (judged by C01/C02)",
                  "every patch is applied to a fresh copy of the parsed document inside the driver"],
     stages=[dict(name="patch", kind="python", module="c15", builds=[("x_ptr", "asan")], ops_quick=300000, pairs_quick=40000, ops_thorough=3000000, pairs_thorough=400000)])
