from ..props import prop

prop("C04", level="exploration",
     level_text="Every generated integer, double, decimal literal and big integer is pushed through the real parser/serializer, the fixed-width conversion helpers, "
                "basic_bigint and the binary codecs under ASan+UBSan and judged against glibc strtod/printf, native 128-bit arithmetic and a schoolbook big integer "
                "written for the monitor; every float16 value on each run, sampled float32 blocks in the quick tier and every float32 value in the thorough tier. "
                "Held means no disagreement on the values explored (counts per operation in the evidence).",
     level_note="Trusted: glibc strtod/snprintf are correctly rounded; the 60-line base-2^32 Big oracle (add/sub/mul/shift/decimal/hex/bytes), which is cross-checked against __int128 on "
                "the native range in the same run. Division is judged by the law q*b+r==a, |r|<|b|, sign(r)=sign(a) plus (a*b)/b==a, and by the built-in operators on the native range. "
                "The sign of a floating zero in JSON text is observed, not judged (DESIGN §3). Doubles and literals are sampled (boundary-biased), not exhaustive.",
     technique="runtime monitoring: in-process differential monitor against independent oracles (glibc strtod/printf, __int128, schoolbook big integer) + algebraic laws, ASan/UBSan; float16/float32 bounded-exhaustive",
     rule="gen stage: case c picks by c mod 5 an integer around the 64-bit/digit-count boundaries (all fixed-width types), an out-of-range integer literal (2^64+d, -(2^63)-d, up to 600 digits), "
          "a hard double (random bits, subnormals, powers of two and ten +-ulps, 2^53 neighbours, short decimals, float-exact), a decimal literal (random up to 400 digits, exact midpoints between adjacent "
          "doubles and their immediate neighbours, exact doubles, range edges) x {default, lossless_bignum off, lossless_number, wchar_t}, or a pair of big integers up to 4160 bits "
          "(random/all-ones/zero/sparse limbs, powers of two +-1); distinct = distinct value or text; f16 stage: all 65536 half patterns; f32 stage: blocks of 65536 consecutive float32 bit patterns",
     assumptions=["glibc strtod and snprintf(%.{p}[efg]) are correctly rounded", "the schoolbook Big oracle in drivers/c04_numbers.cpp is correct (cross-checked against __int128 every run)",
                  "right shift of a negative big integer may truncate or floor (both accepted)"],
     stages=[dict(name="gen", driver="c04_numbers", flagset="asan", quick=600000, thorough=12000000),
             dict(name="f16", driver="c04_numbers", flagset="asan", quick=1, thorough=1, args=["--mode", "f16"], workers_quick=1, workers_thorough=1),
             dict(name="f32", driver="c04_numbers", flagset="asan", quick=256, thorough=65536, args=["--mode", "f32"], args_thorough=["--exhaustive", "1"])])
