from ..props import prop

prop("C12", level="exploration",
     level_text="Recorded-log monitor: generated documents (keys with quotes, backslashes, empty, non-ASCII, digit-only and operator-like names) x expressions generated from the JSONPath grammar "
                "(dot/bracket notation, negative indices and steps, slices, wildcards, unions incl. sub-paths and filters, recursive descent, parent operator, nested filters with comparisons and "
                "boolean operators; plus functions, arithmetic, regular expressions, expression indices and the length pseudo-member; plus token-level mutants) are executed by the real library under "
                "ASan+UBSan through json_query (values, paths, nodups, sort, nodups|sort, callback), make_expression+evaluate (values, paths, callback, evaluated twice), json_location::parse+get on every "
                "returned path and json_replace (json temporary, std::string temporary, callback). Judged offline by (1) model-free laws on every accepted expression: every (path, value) pair resolves "
                "(library get() and an independent Python resolver) to exactly that value, nodups/sort equal the de-duplicated/sorted plain list, compiled == one-shot == callback, queries leave the document "
                "unchanged, json_replace changes exactly the selected nodes (full tree diff); (2) the independent reference evaluator vlib/ref/jsonpath_ref.py: the selected node list (paths and values) must "
                "be equal - in order for expressions without '..', as a multiset with '..' - and strictly spelled plain core forms must be accepted.",
     level_note="Sampled. The reference covers the core selectors only; results for which it exercised one of its own less certain semantics (name used as index on arrays, length pseudo-member, parent operator, "
                "value of a non-singular path inside a filter, value of a logical operator used as comparison operand, trailing '..', top-level '@') and mutated expressions that are not plain core forms are "
                "compared for information only (evidence counters unjudged_mismatch.*). Function results and the length pseudo-member are not document nodes: they are excluded from the resolution law and, "
                "for json_replace, only 'nothing else was touched' is demanded. sort is not judged when a name and an index meet at the same position. When a returned path does not resolve to its value the laws stated in terms of paths (nodups/sort, json_replace) are "
                "not evaluated for that case (they would repeat the same fault). Accept/reject disagreements with the reference are counted (accept_mismatch.*), reported only for strictly spelled plain core forms. "
                "Expressions tripping an internal assertion are counted, not reported (C05). Root causes that are open in the library would be listed in vlib/monitors/c12.py:KNOWN_BAD (predicate over expression "
                "and document; matching cases are counted as not_judged.known.<id>) - the table is empty. 10 fixed witnesses (one or two per root cause ever found) run first in every tier, one request each: a "
                "failing one is reported as jsonpath/witness/<id>, a sanitizer abort as abnormal/witness/<id>/<kind>.",
     technique="runtime monitoring: recorded query log judged offline by model-free self-consistency laws and an independent reference evaluator, ASan/UBSan on the evaluating side",
     rule="pair = (generated document, expression): 62% reference-grammar generator, 10% strictly spelled plain core forms, 14% extension forms (functions, arithmetic, regex, expression index, length, "
          "unions with $-rooted sub-paths), 14% token-level mutants, plus 14 fixed pairs per shard; distinct = distinct (document text, expression); every pair is non-trivial (an expression is evaluated or rejected)",
     assumptions=["reference evaluator vlib/ref/jsonpath_ref.py (core selectors only)", "json documents keep object members sorted by key (UTF-8 byte order), which the reference generator reproduces",
                  "independent normalized-path parser/resolver and tree diff in vlib/monitors/c12.py"],
     stages=[dict(name="jsonpath", kind="python", module="c12", builds=[("x_query", "asan")], pairs_quick=300000, pairs_thorough=3000000)])
