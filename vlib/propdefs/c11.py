from ..props import prop

prop("C11", level="exploration",
     level_text="Recorded-log monitor. The real validator (exec driver x_schema, ASan+UBSan) compiles each schema and reports for every instance is_valid, the messages of "
                "validate(reporter), whether the throwing validate threw, a second is_valid on the same compiled schema and the locations visited by walk. Judged offline by "
                "(0) the mandatory files of the official JSON-Schema-Test-Suite for Drafts 4, 6, 7, 2019-09, 2020-12 (expected verdicts; also the ADMISSION step: a keyword is generated for a "
                "dialect only when python-jsonschema AND jsoncons reproduce every expected verdict of that keyword's suite files); (a) a differential against the independent reference "
                "validator python-jsonschema 4.26 (format assertion off) on generated, meta-schema-valid schemas over the admitted core vocabulary (type, enum/const, numeric bounds in the "
                "boolean and numeric exclusive* forms, integer multipleOf, min/maxLength with non-BMP characters, a portable pattern subset, items/additionalItems/prefixItems, min/maxItems, "
                "uniqueItems, contains with min/maxContains, properties/patternProperties/additionalProperties, required, min/maxProperties, propertyNames, dependencies / dependentRequired / "
                "dependentSchemas, allOf/anyOf/oneOf/not, if/then/else, $ref to definitions/$defs, plain-name anchors and the root incl. guarded recursion and $ref siblings, "
                "unevaluatedProperties/unevaluatedItems, boolean schemas) with instances sampled from the schema just inside and just outside each constraint plus free values; every "
                "disagreement is shrunk (schema and instance) before it is reported; (b) model-free laws on every case, also on an extended vocabulary that is never judged by the reference "
                "(format, content*, $recursiveRef/$dynamicRef, non-integer multipleOf, huge numbers, richer regular expressions, 2019-09 contains+unevaluatedItems, compatibility keywords): "
                "is_valid <=> no message <=> no throw, same verdict on re-use, verdict invariant under permutation of the members of schema and instance objects (json vs ojson), under "
                "options that must not matter (default_version with explicit $schema, require_format_validation without format, compatibility_mode without legacy keywords) and under "
                "allOf:[S], not:{not:S}, anyOf:[S,false]; every instance location reported by walk and by validation messages resolves in the instance (RFC 6901).",
     level_note="Sampled (dialect, schema, instance) triples, not exhaustive. The reference is trusted only where the official suite confirms it and where its implementation was read against the "
                "specification: excluded from the differential are integer-valued floats under draft 4, numbers beyond +-2^53, '.' in patterns against non-ASCII text, 2019-09 schemas that "
                "combine contains with unevaluatedItems or schema-valued additionalProperties/unevaluatedProperties with unevaluatedProperties (python-jsonschema deviates from the 2019-09 "
                "specification there), remote references and an unguarded reference cycle (the library recurses without bound: finding of C05, never generated). draft7/ref.json of the vendored "
                "suite is not strict JSON (a /* */ comment); it is executed after comment removal and counts for admission only together with the strict draft6/ref.json. "
                "Known, unrepaired root causes (vlib/monitors/c11.py:OPEN_ROOT_CAUSES; at present W1: walk() reports /<trigger>/<member> locations below dependentSchemas, asserted by an upstream unit test) are "
                "taken out of the law concerned by a predicate over (schema, instance) (evidence: not_judged.known.<id>) and are re-checked on every run by fixed witnesses reported as schema/witness/<id>. "
                "At most shrink_cap disagreements per run (a few per kind and dialect, reference disagreements first) are minimised within shrink_budget_s and reported; the rest are counted in the evidence.",
     technique="runtime monitoring: recorded verdict log judged offline by an independent reference validator (python-jsonschema) plus model-free agreement laws, ASan/UBSan on the validating side",
     rule="case = (dialect round-robin over the five drafts, generated schema document with 0-3 definitions, ~10 instances: schema-directed samples at the boundaries of each constraint, one-edit "
          "mutations of them, free values) x random irrelevant options x law variants (member permutation 55%, one wrapper 45% of schemas without unevaluated*); 15% of the schemas use the extended, "
          "law-only vocabulary; plus every group of the mandatory official suite files; distinct = distinct (schema text, instance text) with a non-empty schema; evaluations = verdicts judged",
     assumptions=["python-jsonschema 4.26 as reference on the admitted vocabulary",
                  "the official JSON-Schema-Test-Suite vendored under /repo/test/jsonschema is the statement of the specification where both validators are checked against it",
                  "instance equality, code-point string length and ECMA-262 regular expressions restricted to literals ^ $ . [a-z] * + ? behave identically in Python re.search",
                  "for $schema-carrying documents default_version, require_format_validation (no format keyword) and compatibility_mode (no definitions/dependencies in 2019-09+) must not influence a verdict"],
     stages=[dict(name="schema", kind="python", module="c11", builds=[("x_schema", "asan")], schemas_quick=4000, schemas_thorough=100000,
                  shrink_cap_quick=150, shrink_cap_thorough=500, shrink_budget_s_quick=90, shrink_budget_s_thorough=900)])
