from ..props import prop

prop("C14", level="exploration",
     level_text="Recorded-log monitor: sequences of 1-20 JSON Pointer calls on an evolving document are executed by the real library (exec driver x_ptr, jsoncons::json and jsoncons::ojson, "
                "string and pre-parsed json_pointer overloads, error_code overloads) under ASan+UBSan: json_pointer::parse + to_string, get, contains, add, add_if_absent, replace, remove - each also "
                "with create_if_missing - flatten and unflatten(flatten). Every reply (error code, returned value, document text after the call) is judged offline by an independent RFC 6901 "
                "implementation over Python values (vlib/ref/pointer_patch_ref.py, self-tested on all RFC 6901 sec. 5 and RFC 6902 App. A examples): token grammar (~0, ~1, any other ~ is an error), "
                "array-index grammar 0 / [1-9][0-9]*, '-' only as the append position of add, insert-and-shift vs overwrite, exact located value, exact document after each mutator, "
                "to_string(parse(p)) == p with the reference token list, and on ANY error the document must be unchanged (ojson: including member order). flatten: every entry must be a valid pointer "
                "resolving to an equal value and every leaf must be present; unflatten(flatten(d)) == d.",
     level_note="Sampled, not exhaustive. Each step is judged against the reference applied to the document the library itself reported before that step. create_if_missing is jsoncons-specific: when "
                "the path really has missing object members the library may either create exactly those members (as empty objects) and perform the edit, or refuse leaving the document unchanged; when "
                "nothing is missing it must behave like the plain call. add_if_absent on the whole-document pointer must fail (the document always exists). Member order produced by successful edits of "
                "ojson documents is recorded but not judged. unflatten is judged only for documents without member names made of ASCII digits only (such an object is indistinguishable from an array "
                "in the flattened form); empty arrays/objects ARE judged (flatten keeps them as values). Documents hold null, booleans, int64 integers, strings, arrays, objects - no floats. "
                "json_exceptions thrown from error_code overloads count as a reported error.",
     technique="runtime monitoring: recorded operation log judged offline by an independent RFC 6901 reference model, ASan/UBSan on the executing side",
     rule="documents: generated values of depth <= 4, width <= 5 over a member-name alphabet with index-like names (0, 01, 10, -, +1), escape-relevant names (a/b, m~n, ~, /, ~0, ~1, ~01), empty, "
          "non-ASCII and control-character names; pointers: a real location of the current document, kept (30%), or with one token replaced/appended (existing and missing members; for arrays: "
          "size, size+1, '-', leading zeros, signs, empty, spaces, 1e0, 0x0, 2^32+i, 2^63, 2^64-1, 2^64, 2^64+i, non-ASCII digits, 30 digits), or perturbed as text (trailing ~, ~2, ~/, inserted ~, "
          "missing leading slash, doubled/leading/trailing slash, unescaped ~, random strings over /~01a-é); values of depth <= 2; distinct = distinct (document, function, pointer, value, "
          "create flag); non-trivial = non-empty pointer or container document",
     assumptions=["reference RFC 6901/6902 implementation vlib/ref/pointer_patch_ref.py (pure Python, written from the RFC texts; vlib/ref/selftest_pointer_patch.py)",
                  "documents travel as JSON text: json::parse and dump() of null/bool/int64/string/array/object are trusted here (judged by C01/C02)",
                  "Python json module parses the reported document text; duplicate member names in a reported document are detected and reported"],
     stages=[dict(name="pointer", kind="python", module="c14", builds=[("x_ptr", "asan")], ops_quick=150000, ops_thorough=5000000)])
