from ..props import prop

# Twelve random-workload drivers plus the witness driver (one translation unit each) so that they compile in parallel; every driver shares drivers/c17/typed.hpp.
# -g1 keeps line tables for sanitizer reports and drops variable tracking (the drivers are template-heavy: ~30 types x 5 formats each).
_XF = "-g1"


# Root causes found by this monitor that are still open in the library under test (ids: known_value_class / known_damage_class in
# drivers/c17/typed.hpp; the same ids name the witnesses in drivers/c17_witness.cpp).  While an id is listed here the random stages do
# not judge cases of that class (counted as not_judged.known.<id>) and only the witness stage reports it, as typed/witness/<id>.
# All twelve root causes found so far are repaired on branch fix-typed, so the list is empty.  The environment variable
# C17_KNOWN_OPEN=id,id|all adds to it for one run (e.g. against a tree that does not have the repairs yet).
OPEN = []
_KNOWN = ["--known-open", ",".join(OPEN) if OPEN else "none"]
N_WITNESSES = 25      # drivers/c17_witness.cpp: one case per witness


def _st(name, quick):
    return dict(name=name, driver="c17_" + name, flagset="asan", extra_flags=_XF, quick=quick, thorough=quick * 12, args=list(_KNOWN))


prop("C17", level="exploration",
     level_text="For a fixed family of ~230 C++ types (bool, all fixed-width integers, float, double, std::string; vector/deque/list/forward_list/set/multiset/unordered_set/std::array of scalars, strings and containers, "
                "incl. the typed-array element types and vector<uint8_t>; map/unordered_map/multimap with string and integer keys; nested containers of containers; pair; tuples incl. empty and nested; optional; "
                "variant; shared_ptr/unique_ptr; chrono durations (s, ms, ns; integer and floating reps); bitset<1..130>; enums (integer-backed, ENUM_TRAITS, ENUM_NAME_TRAITS); classes described by every trait macro "
                "family ALL/N x MEMBER / CTOR_GETTER / GETTER_SETTER and their *_NAME_TRAITS variants, TPL_* templates, classes containing classes/containers/optionals/variants/enums/tuples/durations/bitsets; "
                "JSONCONS_POLYMORPHIC_TRAITS hierarchies held in shared_ptr/unique_ptr, in vectors/maps of them and as class members; std::wstring (empty, ASCII, non-ASCII BMP, astral, up to 400 characters) as a scalar, "
                "in vector/set/pair/tuple/optional/shared_ptr/map<string,.> and as members of N_MEMBER and ALL_MEMBER_NAME classes) a seeded generator produces values t with an exact equality written for the monitor. "
                "Every t is executed under ASan+UBSan through both routes in JSON text, CBOR, MessagePack, UBJSON and BSON: (1) decode_F<T>(encode_F(t)) == t; (2) json j(t), j.as<T>() == t, decode_F<T>(encode_F(j)) == t; "
                "(3) encode_F(t) and encode_F(j), both decoded to basic_json by the same decoder, are structurally equal ignoring member order (strict comparer, not operator==); (4) try_encode_F / try_decode_F<T> / try_as<T> "
                "agree with the throwing variants; stage 'overloads' repeats this for one representative type per decode_traits/encode_traits path through the std::ostream / std::istream / iterator-range overloads. "
                "Stage 'transform': one class per *_NAME_TRAITS macro family (ALL/N x MEMBER_NAME / CTOR_GETTER_NAME / GETTER_SETTER_NAME) whose members use the long member form (name, mode, match, into, from): a struct <-> string "
                "Into/From pair on a mandatory member and, in the N_ families, on an optional member, a match predicate (valid levels 0..9) and a JSONCONS_RDONLY tag member with a match predicate; all common checks, plus the damage "
                "'match-rejected-value' (a string the From function maps to a value that the match predicate must refuse). "
                "Stage 'crosselem': a vector<S> (S in int8..int32, uint8..uint32, float, half; boundary-biased elements) is encoded as CBOR with typed arrays on and off, MessagePack, UBJSON and BSON and decoded into "
                "vector<D> for every wider element type D that represents all values of S exactly, through decode_X<vector<D>> from bytes and from a stream (typed-array fast paths) and through "
                "decode_X<json>(bytes).as<vector<D>>(): all must equal the element-wise conversion of the source (signature typed/cross-element-type/<format>/<route>/<S>-to-<D>). "
                "Stage 'wide' additionally sends the std::wstring types through the wchar_t routes: encode_json into std::wstring / decode_json from it, wjson(t) / wjson::as<T>(), try_ variants, the wide text compared (after the "
                "monitor's own UTF-32 -> UTF-8 conversion) with the narrow basic_json value, narrow text widened by the monitor and decoded by the wide decoder and vice versa, and one shape damage per value through both wide routes. "
                "Shape mismatch injection is type-directed: json(t) is damaged at exactly one position chosen by walking T (value of a kind that T's position cannot convert, mandatory member removed, object for a "
                "sequence / array for a map or class, too few / too many elements for std::array, pair, tuple, non-numeric key for an integer-keyed map, unknown enumerator name) and the damaged document is fed to "
                "as<T>()/try_as<T>() and, encoded in every format, to decode_F<T>/try_decode_F<T>: both routes must report an error through the library error channel (json_exception other than assertion_error, or an "
                "unexpected result); an extra unknown member added to a macro-described class must NOT change the decoded value. Held means no disagreement on the values and damages explored (counts per type and per check in the evidence).",
     level_note="Sampled (boundary-biased), not exhaustive. Trusted: the generators/equalities in drivers/c17/typed.hpp and the strict structural comparer. Judged domain restrictions (counted under domain.not-judged.* / skip.* / "
                "damage.unjudged.*): (a) as<std::string>() is documented to return the JSON text of any value, so a wrong kind at a string position is judged for the streaming route only (containers), not for the basic_json route; "
                "replacements are never null, numeric strings, bools for integers, or strings for byte containers (all legitimately convertible); (b) UBJSON has no byte string type: std::bitset (whose JSON form is a byte "
                "string) is not judged in UBJSON; (c) CBOR writes epoch_milli/epoch_nano durations as tag 1 with float64 seconds: integer ms/ns counts are judged below 2^51 in magnitude, floating ms/ns counts are not judged; "
                "(d) BSON: the root must be a document - scalars are wrapped as {\"v\": t} (std::map<std::string,T>), array roots are judged per decode path under the family 'arrayroot:<path>' and not judged for types decoded "
                "through basic_json (they see an object), names containing NUL and uint64 above INT64_MAX are skipped, datetime is int64 ms (seconds above INT64_MAX/1000 and sub-millisecond nanoseconds are not judged), and "
                "'object for a sequence / array for a map' at the root is not a mismatch in BSON; (e) std::tuple accepts additional trailing elements by design (json_traits::is tests size >= N): too many elements for a tuple "
                "is judged for route agreement only; (f) multimap values with duplicate keys and variants with overlapping alternatives (variant<int32,int64>, variant<float,double>, variant<vector<int32>,vector<double>>) "
                "are executed but never judged; a null polymorphic pointer is generated at the root only; (g) tolerated difference between the two encodings: the same value carrying a semantic tag on one side only "
                "(counted under tolerated.tag-only-difference), int64/uint64 kinds of the same non-negative integer; (h) a try_ function that throws a library exception instead of returning an unexpected result is counted "
                "(observed.try_*-threw-library-exception), not judged. Types/routes that do not compile are recorded under uncompilable.* (see the final rule text) and are exercised through the remaining routes. "
                "(i) wide routes: as<std::wstring>() on a narrow json requires a string (judged), on a wjson it returns the JSON text like as<std::string>() on a json (not judged); absent optional / null pointer positions are "
                "not judged through the wide routes; std::map<std::string,V> and classes described with narrow *_NAME_TRAITS literals do not compile with wjson or a wide encoder, std::map<std::wstring,V> does not compile with "
                "the narrow routes, std::u16string/std::u32string have no traits (all recorded under uncompilable.*). "
                "Objects returned for input that should have been refused are rendered in a child process (they may be uninitialised). "
                "Known root causes: every root cause found by this monitor has an id, a class predicate (known_value_class / known_damage_class in typed.hpp) and 1-3 fixed witnesses "
                "(stage 'witnesses', c17_witness.cpp, one case each, executed on every run and reported as typed/witness/<id> only while the library still misbehaves on them); "
                "while an id is declared open (OPEN in vlib/propdefs/c17.py, or C17_KNOWN_OPEN in the environment) the random stages do not judge its class (not_judged.known.<id>).",
     technique="runtime monitoring: in-process round-trip / route-differential monitor with exact per-type equality and a strict structural oracle, plus type-directed fault injection into the input shape judged on the "
               "library's error channel; ASan/UBSan",
     rule="case c = type number c mod N of the stage's type table; value from the type's seeded generator (integers: limits, powers of two +-1, CBOR/MessagePack length boundaries; strings: empty, long, non-ASCII, "
          "controls, NUL; containers: 0..5 elements, 23..25 and up to 300 at the root; optional/pointer absent 1/3); 2 damages per value, the damage kind chosen uniformly among the kinds available for the value and the "
          "position uniformly among the positions of that kind; distinct = distinct (type, JSON text) and (type, damaged JSON text); every value is non-trivial. Not compilable (recorded, not judged): on trees where ext_traits::is_typed_array still matches containers without data(), streaming "
          "encode of deque/list/forward_list/set/multiset/unordered_set of a fixed-width arithmetic element type and streaming decode of deque/list of those (the drivers follow the trait at compile time and exercise these routes once it is corrected); "
          "json(std::unique_ptr<T>) for T other than scalars/strings; N_MEMBER-style traits with a shared_ptr<Base> member; chrono periods other than 1, milli, nano; duration<double,std::milli>::try_as.",
     assumptions=["generators and exact equalities in drivers/c17/typed.hpp, types_enum.hpp, types_class.hpp, types_poly.hpp", "strict structural compare drivers/common/jvalue.hpp",
                  "documented per-format restrictions transcribed in fmt_domain() / rt_bson() of drivers/c17/typed.hpp",
                  "the C17_SHARED_REV static_assert in the drivers is a leftover of the time when the build cache did not hash drivers/c17/*; it no longer needs bumping"],
     stages=[_st("scalars", 200000), _st("special", 144000), _st("wide", 80000), _st("variants", 128000), _st("sequences", 112000), _st("fixed", 96000), _st("maps", 112000),
             _st("classes", 64000), _st("poly", 40000), _st("overloads", 96000), _st("crosselem", 70000), _st("transform", 40000),
             dict(name="witnesses", driver="c17_witness", flagset="asan", extra_flags=_XF, quick=N_WITNESSES, thorough=N_WITNESSES, args=["--mode", "witnesses"],
                  workers_quick=1, workers_thorough=1)])
