from ..props import prop

prop("C13", level="exploration",
     level_text="Recorded-log monitor: generated documents (empty containers, nulls, mixed-type arrays, non-ASCII and quoted keys; members sent in sorted key order) x expressions generated from the JMESPath grammar "
                "(identifiers, sub-expressions, index/slice expressions, list/object/filter projections, flatten, pipes, multi-select lists and hashes, literals, raw strings, comparison and boolean operators, "
                "all 26 built-in functions with expression references, arbitrary nesting), plus expressions steered to the error conditions (wrong argument type, wrong arity, unknown function, zero slice step) "
                "and token-level mutants, are executed by the real library under ASan+UBSan through jmespath::search and make_expression+evaluate (twice). Judged offline by (1) the independent reference "
                "interpreter vlib/ref/jmespath_ref.py: equal result (numbers numerically, member order irrelevant) or an error of the corresponding class; a syntax error on a generator expression is a violation; "
                "(2) model-free identities evaluated by the library itself in a second round: e | @ == e, reverse(reverse(x)) == x, length(keys(o)) == length(values(o)), sort(sort(x)) == sort(x), "
                "compiled == one-shot, second evaluation == first, document text unchanged.",
     level_note="Sampled. Every disagreement with the reference is reduced (up to 10 rounds of derived sub-cases: sub-expression + the value that was current, operand replaced by the literal of its value) and "
                "reported on the smallest sub-case that still disagrees and is judged; each sub-case is an independent (document, expression) test. Not judged (evidence counters not_judged.*): expressions whose "
                "parse depends on the disputed precedence of '!' or of the right-hand side of '.*' (precedence_sensitive); results for which the reference evaluated 'lhs.f(..)' with lhs == null, or skipped a right "
                "operand of ||/&& that contains a function call (lazy vs eager evaluation); contains(string, non-string); merge()/not_null() without arguments; to_number of a string that is not a JSON number "
                "but that a lenient parser accepts (' 7', '+7', '0x10', '01', '1.', '.5'); to_string of a computed number inside a larger result (3 vs 3.0); what follows a multi-select ending the right-hand "
                "side of a projection (x[*].[a][0]); a filter that follows the right-hand side of a filter projection (x[?a].b[?c]: equal binding power, applied to the projection's result by jmespath.py/js); "
                "mutated expressions (compared for information only). The library resolves function names, arity and zero slice steps at compile time: such an error is accepted "
                "whenever the expression statically contains the condition, even in a branch the reference never evaluates. Expressions tripping an internal assertion are counted, not reported (finding of C05). "
                "Root causes that are open in the library would be listed in vlib/monitors/c13.py:KNOWN_BAD (predicate over AST and document; matching cases are counted as not_judged.known.<id>) - the table is "
                "empty, every root cause found so far has a repair. 24 fixed witnesses (one to three per root cause ever found, expectation fixed by the specification) run first in every tier, one request each: "
                "a failing one is reported as jmespath/witness/<id>, a sanitizer abort as abnormal/witness/<id>/<kind>.",
     technique="runtime monitoring: recorded query log judged offline by an independent reference interpreter and by algebraic identities of the specification, ASan/UBSan on the evaluating side",
     rule="pair = (generated document, expression): 78% reference-grammar generator (depth 1-5), 12% error-steered forms, 10% token-level mutants, 10 fixed pairs per shard; a second round evaluates 1-3 identity "
          "expressions per successfully evaluated pair, further rounds the reduction sub-cases; distinct = distinct (document text, expression); every pair is non-trivial",
     assumptions=["reference interpreter vlib/ref/jmespath_ref.py (written from the jmespath.org specification, passes the compliance suite)",
                  "objects created by the reference (multi-select hash, literal, merge) are re-ordered to sorted keys to model jsoncons::json (vlib/monitors/c13.py:Prepared)",
                  "the reference is observed, not modified: vlib/monitors/c13.py replaces jmespath_ref._eval / three function impls by wrappers with identical results that record exercised ambiguities"],
     stages=[dict(name="jmespath", kind="python", module="c13", builds=[("x_query", "asan")], pairs_quick=250000, pairs_thorough=3000000)])
