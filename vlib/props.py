"""Property registry: which drivers/monitors decide which property, and with what bounds."""
import json, os, sys, importlib, time
from . import core

# A stage of kind "driver" runs a C++ in-process monitor over N cases split over workers.
# A stage of kind "python" calls vlib.monitors.<module>.run(run, tier, seed, stage) which may itself
# build drivers and compare recorded logs against a reference model.

PROPS = {}


def prop(pid, **kw):
    PROPS[pid] = kw


prop("C01", level="exploration",
     level_text="Generated data-model values x generated option sets are serialized by every JSON text API (dump, dump_pretty, operator<<, encode_json, encoder+dump(visitor)), "
                "re-parsed and re-serialized under ASan+UBSan; judged by a strict structural comparer (not basic_json::operator==), byte equality of the second text, "
                "agreement between APIs, an independent RFC 8259 recogniser and token-level equality of pretty vs compact and of wchar_t vs char output.",
     level_note="Sampled values/options (boundary-biased), not exhaustive. The sign of a floating zero is not compared in JSON text (DESIGN §3). wchar_t layout may differ from char "
                "layout under line_length_limit (code-unit counting) and is compared at token level.",
     technique="runtime monitoring: in-process round-trip/canonical-form monitor with strict structural oracle + independent RFC 8259 recogniser, ASan/UBSan",
     rule="value generator DESIGN §2.4 (no byte strings, no NaN/Inf, bignums out of native range) x random option sets over all layout/escaping options x json/ojson/wjson; "
          "distinct = distinct typed description of the value; non-trivial = container with >=1 element or non-empty string",
     assumptions=["independent RFC 8259 recogniser drivers/common/rfc8259.hpp", "strict structural compare drivers/common/jvalue.hpp"],
     stages=[dict(name="roundtrip", driver="c01_roundtrip", flagset="asan", quick=250000, thorough=3000000)])

prop("C02", level="exploration",
     level_text="In-process monitor judged by an independent RFC 8259 recogniser/evaluator written from the ABNF (drivers/common/rfc8259.hpp; options: depth limit, comments, trailing comma). (1) Bounded-exhaustive: EVERY string of "
                "length <= 5 (thorough: 6) over a 25-symbol token alphabet ({ } [ ] , : \" \\ / u 0 1 9 - + . e E a SP LF ' true false null) is parsed under four configurations (strict, comments, trailing comma, depth limit 2): "
                "accept <=> the judge accepts. (2) Generative/mutational: documents written by a foreign writer with random whitespace, escape style, number spelling (-0, 0e0, 1E+2, 19/20/21-digit integers, 400-digit decimals, "
                "round-to-even midpoints), mutated variants and the JSONTestSuite files, through json::parse, the stream reader and the push parser; on accept the value must equal the judge's value: structure, names, first "
                "duplicate wins, strings as scalar sequences, integers exactly with int64/uint64 kind, decimals as the correctly rounded double (glibc strtod), out-of-range numbers digit-for-digit as bigint/bigdec. ASan+UBSan.",
     level_note="Texts containing \\u escapes that do not denote a Unicode scalar value (unpaired surrogates) and texts starting with a BOM/NUL (encoding detection) are not judged (DESIGN §3). wchar_t input is exercised by C01. "
                "Exhaustive: exhaustive=true for the token-alphabet space only.",
     technique="runtime monitoring: in-process differential monitor against an independent RFC 8259 recogniser over a bounded-exhaustive token space plus generated/mutated documents, ASan/UBSan",
     rule="exhaustive stage: all 10 172 526 strings of <= 5 alphabet symbols x 4 configurations; generative stage: foreign-written / mutated / JSONTestSuite texts; distinct = distinct texts; every text is non-trivial (the empty text once) Added after the seeded-change rounds: every accepted text is also read into the sorted-object policy and by the wchar_t parser (value compared through an own UTF-8/UTF-32 conversion); wide objects (14-53 pairs) with repeated names; raw UTF-8 sequences at every boundary of the well-formedness table inside strings and names; NaN/Inf substitution names registered without inverse.",
     assumptions=["independent recogniser drivers/common/rfc8259.hpp", "glibc strtod is correctly rounded"],
     stages=[dict(name="exhaustive", driver="c02_parser", flagset="asan", quick=10172526, thorough=254313151, args_quick=["--mode", "exhaustive", "--L", "5"], args_thorough=["--mode", "exhaustive", "--L", "6"]),
             dict(name="generative", driver="c02_parser", flagset="asan", quick=400000, thorough=6000000)])

prop("C03", level="exploration",
     level_text="Differential monitor: each generated input (valid, mutated, truncated; JSON text and CBOR/MessagePack/UBJSON/BSON bytes) is decoded through the reference delivery "
                "(whole buffer, push visitor) and through stream sources of every/any chunk size, forward-iterator sources, the incremental parser at every single split point, uniform and random "
                "multi-way splits (each chunk in its own exact-size heap block so over-reads are ASan-visible), pull cursors (walk, read_to, filter view) and staj iterators; event sequences and "
                "error codes must be identical. Runs under ASan+UBSan.",
     level_note="Sampled inputs; positions (line/column) are not compared; 'no value produced' is identified with unexpected_eof as json::parse does; maps with non-text keys are not judged "
                "(readers stringify the key, cursors report the raw item). CSV deliveries are covered by the C18/C05 drivers, not here.",
     technique="runtime monitoring: differential delivery monitor over recorded event sequences (push visitor vs stream/iterator/incremental/cursor), ASan/UBSan",
     rule="inputs = dumps of generated values (pretty/compact, CRLF), stress strings on token boundaries, 0-3 random mutations/truncations, every prefix of the stress strings; binary = encodings of "
          "generated values + byte mutations; distinct = distinct input bytes; every input counts as non-trivial (empty input included once) Added later: encoding-detection byte patterns beyond the start of the text, RFC 8746 typed arrays of every element type, cursor read_to from every container in the binary formats, CSV text (reader vs stream reader vs cursors over mapping/header/delimiter/trim/subfield options), streams of several JSON values read with read_next()/eof().",
     assumptions=["the reference delivery is jsoncons' own whole-buffer reader: the oracle is agreement, not absolute correctness (C02/C07 judge that)"],
     stages=[dict(name="delivery", driver="c03_delivery", flagset="asan", quick=120000, thorough=1200000)])

prop("C05", level="exploration",
     level_text="Structure-aware mutational workload under ASan+UBSan+LSan over ~70 public entry points: decode_*/try_decode_* from bytes, streams and iterators, readers, pull cursors (walk, read_to, typed getters), "
                "incremental parsers and typed decoding (vector, map, tuple, struct) for JSON, CBOR, MessagePack, UBJSON, BSON, CSV and TOON; JSONPath/JMESPath compile+evaluate/json_query/json_replace/json_location, "
                "JSON Pointer parse/get/mutators/flatten/unflatten, JSON Patch with hostile pointers, URI parse/resolve, JSON Schema compile+validate/walk with mutated schemas; every encoder x generated values (all tags, "
                "non-finite doubles, decoder-produced kinds) x option sets (float_format x precision 0..127, bignum/byte-string formats, indent 0..255, nesting limits) and transcoding of decoded values into every other "
                "encoder. Oracle: no sanitizer report, no leak, no internal assertion, no exception type outside the json_exception interface, no hang (30 s per case, re-checked in isolation).",
     level_note="Quick tier: deterministic seeded mutation (no coverage feedback). Constructs that crash the unchanged tree (TOON reader on malformed text, unbounded recursion in schema $ref/expression nesting, ...) are open findings kept as "
                "isolated witnesses (one process case each) and are not re-generated by the random workload, so that one known crash does not mask the rest.",
     technique="runtime monitoring: compiler sanitizers (ASan, UBSan, LSan) + exception-channel monitor + watchdog over a structure-aware mutational workload",
     rule="case = seed (encoding of a generated value, spec-style vector, JSONTestSuite/CSV fixture, expression, schema) + 0-5 byte/token mutations, executed through every entry point of its family; distinct = distinct mutated input; every input is non-trivial Added later: TOON token-level mutation inside a sub-space free of the known crash triggers, CBOR typed-array/multi-dimensional generator (every element type, extents smaller/equal/larger than the storage), JSONPath parent-operator seeds, incremental chunks in exact-size heap blocks.",
     assumptions=["sanitizer coverage limits (intra-object overflow, quarantine reuse)", "seeds under /repo/test are read at run time"],
     stages=[dict(name="decoders", driver="c05_decoders", flagset="asan", quick=64000, thorough=800000),
             dict(name="decoder_witnesses", driver="c05_decoders", flagset="asan", quick=5, thorough=5, args=["--mode", "witnesses"], workers_quick=1, workers_thorough=1),
             dict(name="compilers", driver="c05_compilers", flagset="asan", quick=48000, thorough=600000),
             dict(name="compiler_witnesses", driver="c05_compilers", flagset="asan", quick=4, thorough=4, args=["--mode", "witnesses"], workers_quick=1, workers_thorough=1),
             dict(name="encoders", driver="c05_encoders", flagset="asan", quick=32000, thorough=400000),
             dict(name="encoder_witnesses", driver="c05_encoders", flagset="asan", quick=2, thorough=2, args=["--mode", "witnesses", "--hang", "10"], workers_quick=1, workers_thorough=1)])

prop("C06", level="exploration",
     level_text="Generated data-model values (every integer width boundary, length boundaries 23/24, 255/256, 65535/65536, all tags, NaN/Inf/-0.0, deep and wide containers, repeated strings) are "
                "encoded by encode_X and by the streaming X_encoder and decoded from bytes/stream/iterator into json and ojson for CBOR, MessagePack, UBJSON and BSON under ASan+UBSan; the result is "
                "compared with the documented mapping of each format by a strict structural comparer; typed vector<T> round trips for ten element types; CBOR pack_strings and typed arrays on.",
     level_note="Sampled. Documented lossy mappings are encoded in drivers/c06_binroundtrip.cpp:fdiff (bignums as plain strings in MessagePack/BSON, byte strings as uint8 arrays and uint64>2^63-1 as "
                "high-precision numbers in UBJSON, half floats may come back as the same number in a wider float); epoch_milli/nano tags and non-document BSON roots are not value-judged.",
     technique="runtime monitoring: in-process round-trip monitor with format-aware strict structural oracle and value shrinking, ASan/UBSan",
     rule="value generator DESIGN §2.4 with byte strings, non-finite doubles, half floats and CBOR tags; distinct = distinct (format, typed description); non-trivial = container with >=1 element or non-empty string Added later: four encode routes (encode_X into bytes, bytes encoder, encode_X into std::ostream, stream encoder) x three decode routes; catalogue of container sizes 14-17, 23-25, 31-33, 255-257, 65535-65537 for strings, byte strings, arrays and objects; documents of 16-70 KiB through every route; MessagePack timestamp and CBOR bigfloat catalogues.",
     assumptions=["documented per-format mappings as transcribed in fdiff()", "strict structural compare"],
     stages=[dict(name="binrt", driver="c06_binroundtrip", flagset="asan", quick=250000, thorough=2500000)])

prop("C07", level="exploration",
     level_text="Recorded-log monitor with independent reference decoders written from RFC 8949, the MessagePack spec, UBJSON draft 12 and BSON 1.1 (vlib/ref, validated on RFC 8949 App. A/F vectors): inputs are emitted by the "
                "reference ENCODERS in every legal spelling (non-minimal widths, definite/indefinite, chunked strings, typed/counted UBJSON containers), plus every strict prefix, byte/structural mutations (reserved length codes, "
                "break codes, length +-1, invalid UTF-8) and the exhaustive 1-2 byte space (3 bytes sampled in thorough). Each input is decoded by the real library under ASan+UBSan; rule: well-formed JSON-like => accepted and "
                "equal to the reference value (integers over -2^64..2^64-1, floats of every width, tags 0,1,2,3,21-23,32-34, unknown tags ignored); ill-formed => rejected; well-formed but not JSON-like => no value demand.",
     level_note="Trailing bytes after the first item are not judged. Tags 4,5,24,25,256,40,1040,64-87 (typed arrays), MessagePack timestamps and BSON-specific scalar types carry no value demand here (jsoncons-specific renderings); duplicate keys excluded.",
     technique="runtime monitoring: recorded decode log judged offline by independent reference decoders (differential oracle), ASan/UBSan on the decoding side",
     rule="inputs per format = 65 792 exhaustive + reference encodings of generated values in random legal spellings + prefixes + mutations; distinct = distinct byte strings; all inputs are non-trivial (the empty input appears once as a prefix)",
     assumptions=["reference codecs in vlib/ref (pure Python, written from the specifications)", "mapping reference value -> jsoncons data model in vlib/monitors/c07.py:expected_desc"],
     stages=[dict(name="conformance", kind="python", module="c07", builds=[("x_bin", "asan")], values_quick=1200, values_thorough=15000)])

prop("C08", level="exploration",
     level_text="Recorded-log monitor: grammatical event sequences (balanced containers, keys alternating with values, container lengths declared correctly / too small / too large / not at all, every scalar kind and tag, typed arrays, "
                "boundary-length strings, occasionally invalid UTF-8) are pushed through the visitor interface into the compact and pretty JSON encoders and the CBOR (with and without pack_strings), MessagePack, UBJSON and BSON encoders "
                "under ASan+UBSan. An encoder may report an error; any output it produces must be read back IN FULL by an independent decoder (strict Python json with constants rejected / the reference codecs of C07, which are "
                "length-strict) and denote exactly the pushed data. Transcoding: values decoded from reference-encoded (and mutated) inputs of each format are re-encoded as JSON text and in every binary format; each result "
                "must be well-formed and the JSON text must denote the decoded value.",
     level_note="Sampled sequences. CBOR typed-array tags written for typed_array events are not value-judged. Encoders are allowed to refuse any sequence (counted in the evidence, not judged).",
     technique="runtime monitoring: recorded encoder output judged offline by independent decoders (strict JSON parser, reference binary decoders), ASan/UBSan on the encoding side",
     rule="event sequences linearised from generated trees x 6 encoders, plus transcoded values x 6 targets; distinct = distinct trees / accepted transcoding inputs; all are non-trivial",
     assumptions=["reference codecs in vlib/ref", "Python json module as strict RFC 8259 parser (parse_constant rejects NaN/Infinity)"],
     stages=[dict(name="encoders", kind="python", module="c08", builds=[("x_bin", "asan")], sequences_quick=4000, transcodes_quick=4000, sequences_thorough=200000, transcodes_thorough=200000)])

prop("C09", level="exploration",
     level_text="History monitor: random operation sequences (construct, copy/move construct and assign, swap, insert_or_assign, try_emplace, operator[], push/emplace_back, insert, erase by key/"
                "iterator/range, merge, merge_or_update (copy and move), resize, reserve, shrink_to_fit, clear, lookups; also applied to nested containers) over pools of 4 json and 4 ojson values are mirrored on an "
                "independent plain C++ model; after every operation every slot must serialise exactly like its model (sorted keys for json, insertion order for ojson), return values and lookups must agree, "
                "moved-from values must stay usable; ASan+UBSan watch the rest. Relational laws (reflexive, symmetric, </> consistency, equality vs ordering, equality vs serialization) over all pairs of a "
                "catalogue of every storage kind and tag, and is<T>() => as<T>() exact for 12 arithmetic types.",
     level_note="Random histories of 50-400 operations, not exhaustive; the model's ojson ordering rules (assign keeps position, new keys append, merge appends in source order) are the documented behaviour. "
                "NaN values are excluded from the relational laws; number-tagged strings are excluded from the 'equal prints identically' law.",
     technique="runtime monitoring: in-process reference-model history monitor + relational law monitor, ASan/UBSan",
     rule="histories of 50-400 random operations over 4 slots, keys from an 8-key alphabet (SSO boundary, empty, escapes), values from the model generator; distinct = distinct operation trace; every history is non-trivial Added later: hinted insert_or_assign/try_emplace/merge/merge_or_update with hints at, before and after the key; range insert with repeated names and up to 34 entries.",
     assumptions=["plain C++ model drivers/common/model.hpp", "values read through public observers only"],
     stages=[dict(name="container", driver="c09_container", flagset="asan", quick=12000, thorough=150000)])

prop("C10", level="exploration",
     level_text="Limit monitor: for every container-opening path of every decoder (JSON array/object/mixed; CBOR definite/indefinite/2-byte-length arrays and maps, tagged arrays, stringref namespaces; MessagePack fix/16/32 "
                "arrays and maps; UBJSON plain/counted/typed arrays and objects; BSON documents/arrays) x limit L x depth L-1/L/L+1 x reader/stream-reader/cursor the outcome must be accept/accept/"
                "max_nesting_depth_exceeded; the same sweep on all five encoders; UBJSON max_items at N-1/N/N+1 on all counted paths. Allocation meter (global operator new replaced): inputs that claim "
                "2^16..2^64-1 elements/bytes followed by 0-64 bytes must keep peak requested bytes <= 96 KiB + 24 x (bytes supplied + bytes of value produced). Stack monitor (no sanitizer, painted mmap stack "
                "with guard page, 256 KiB): copy, compare, dump, parse, CBOR encode/decode, assign and destroy at depth <= 1024, and destruction at depth 10^6.",
     level_note="Limits L sampled from {0,1,2,3,7,64,1023,1024,1025,20000} and 0..80 in quick, 0..20000 in thorough. The meter constants were fixed from the unchanged tree (observed peak 33 KB on every claim). "
                "256 KiB is the 'small fixed stack' (measured maximum 169 KB at depth 1024, -O2).",
     technique="runtime monitoring: boundary sweep monitor + allocation meter (operator new hook) under ASan/UBSan; painted-stack high-water monitor with guard page (no sanitizer)",
     rule="cells = (format, opening path, limit, depth offset, route) | (encoder, kind, limit) | (claim kind, claimed length, trailing bytes, source) | (max_items N, path); distinct = distinct case index, every cell is non-trivial Added later: compact and pretty JSON encoders and the CSV encoder at every depth offset; CBOR paths with multi-dimensional/typed-array siblings in front of the deep chain; sibling-chain paths (three chains in one array) for JSON, CBOR, MessagePack and UBJSON.",
     assumptions=["meter bound A=96KiB, B=24 is calibrated on the unchanged tree", "stack bound 256 KiB at -O2 without sanitizer instrumentation"],
     stages=[dict(name="limits", driver="c10_limits", flagset="asan", quick=6000, thorough=80000),
             dict(name="stack", driver="c10_stack", flagset="plain", quick=600, thorough=8000)])

prop("C18", level="exploration",
     level_text="CSV: generated tables (cells: strings with delimiter/quote/escape characters, CR/LF, leading/trailing spaces, empty, number/boolean/null look-alikes, non-ASCII; integers, doubles, booleans, nulls) as arrays-of-"
                "arrays, arrays-of-objects and column-oriented objects x field_delimiter {, ; tab |} x quote_char {\" '} x quote_escape_char {same, backslash} x line_delimiter {LF, CRLF} x all four quote styles x infer_types; "
                "an independent field scanner re-reads the emitted text (record/field counts, header names and every string field must be recoverable => fields containing delimiter, quote or line break were quoted) and, under "
                "the property's precondition, decode_csv must return the same table (strict compare). TOON: decode_toon(encode_toon(v, o)) == v (numbers compared exactly by value) for json and ojson x indent 1-8 x "
                "delimiter kinds x length marker, including arrays of uniform objects. ASan+UBSan.",
     level_note="Sampled. Quote style none is an explicit opt-out: only safety is checked. The TOON reader/writer of the unchanged tree fails on 16 constructs (open findings T1-T9, each an isolated witness re-executed on every run); randomly generated TOON values avoid exactly those constructs (toon_safe() in the driver) and any other TOON mismatch is a violation. CSV has one open finding (single-column record holding an empty string, minimal quoting).",
     technique="runtime monitoring: in-process round-trip monitor with an independent CSV field scanner and strict structural oracle; value shrinking for witnesses; ASan/UBSan",
     rule="case = generated (table, options) or (value, TOON options); distinct = distinct case index (CSV) / distinct value description (TOON); non-trivial = container with >= 1 element or non-empty string Added later: TOON list-item shapes whose members are primitives, primitive arrays and arrays of primitive arrays, all three delimiters.",
     assumptions=["CSV field scanner in drivers/c18_csv_toon.cpp implements RFC 4180 quoting with configurable quote/escape characters"],
     stages=[dict(name="csvtoon", driver="c18_csv_toon", flagset="asan", quick=150000, thorough=2000000)])

prop("C19", level="fault_enumeration",
     level_text="Fault enumeration: global operator new is replaced by a counting fail-point. For each of 19 scenarios (parse from string/stream, decode CBOR/MessagePack/UBJSON/BSON, deep copy, copy-assign "
                "json and ojson over existing values, insertion with reallocation, merge, apply_patch, from_diff (patch and merge patch), json_query, jmespath search, schema compile+validate, dump/dump_pretty/"
                "operator<</encode_cbor, typed decode) and each generated input, the operation is run once fault-free (N allocations) and then once for every k=1..N with the k-th allocation throwing "
                "std::bad_alloc. Oracle: bad_alloc (or the fault-free result) reaches the caller, no other exception type, no terminate; survivors are dumped/reassigned/destroyed under ASan; no block allocated "
                "in the window is live after the survivors are destroyed (immediately after unwinding for strong-guarantee scenarios); apply_patch leaves the target equal to its pre-call value; sized "
                "deallocations must match. A tracking stateful allocator (scoped_allocator_adaptor) checks that every block returns to an equal allocator with the requested size, also under injected failures.",
     level_note="Every allocation index of each (scenario, input) is enumerated (single-failure model: exactly one allocation fails per run); inputs are sampled. Function-local statics are warmed up outside the window.",
     technique="runtime monitoring with fault injection: counting operator-new fail-point enumerating every allocation index, live-block conservation monitor, tracking stateful allocator, ASan/UBSan",
     rule="case = (scenario, generated input); for each, every allocation index 1..N is injected; distinct = distinct case index; every case is non-trivial (N >= 1 allocations) Added later: scenarios copy-assign-kind-pairs (all pairs of heap-backed storage kinds) and apply-patch-moves (1-18 random replace/move/add/remove/copy operations).",
     assumptions=["single allocation failure per run", "leak accounting by allocation headers written by the driver's operator new"],
     stages=[dict(name="allocfail", driver="c19_allocfail", flagset="asan_noleak", quick=24000, thorough=160000)])

prop("C20", level="exploration",
     level_text="ThreadSanitizer build: 2-16 threads released together (spin barrier, randomized 0-50us start skew) run seeded mixes of read-only operations (is_valid, validate with reporter, walk; jsonpath "
                "evaluate values/paths; jmespath evaluate; const json/ojson dump, copy, compare, lookup, iteration, flatten, encode_cbor, as<T>) on SHARED compiled schemas (Drafts 4-2020-12, with pattern, format, "
                "$ref, $anchor, unevaluated*), JSONPath expressions (filters, functions, regex), JMESPath expressions and documents; half of each thread's operations hit one focus artifact. Oracle: zero TSan "
                "reports (log parsed, de-duplicated by stack pair) and every per-thread result equal to the single-threaded result computed before the threads start.",
     level_note="TSan sees only the interleavings that occurred; runs are repeated because reports vary run to run. The monitor keeps per-thread buffers merged after join (no shared mutable monitor state).",
     technique="runtime monitoring: ThreadSanitizer race detection + per-thread result comparison against single-threaded results",
     rule="episode = (thread count in {2,4,8,16}, focus artifact, per-thread seeded operation streams); distinct = distinct (episode index, thread count); every episode is non-trivial Added later: shared document with doubles for which Grisu3 gives up, extremes and big numbers; JSONPath tokenize() with per-item regular expressions taken from the document.",
     assumptions=["libstdc++ is not TSan-instrumented; std::regex internals are seen through interceptors only"],
     stages=[dict(name="threads", kind="python", module="c20", builds=[("c20_threads", "tsan")], repeats_quick=3, episodes_quick=12, ops_quick=300, repeats_thorough=6, episodes_thorough=30, ops_thorough=800)])

prop("C16", level="exploration",
     level_text="Every generated (target, patch) pair and (source, target) pair is executed against the real apply_merge_patch/from_diff for json and ojson under ASan+UBSan and "
                "judged by an RFC 7386 transcription over an independent value model; held means no mismatch on the pairs explored (counts in evidence).",
     level_note="Trusted: the 15-line RFC 7386 transcription and the model<->basic_json conversion through public observers; sampled, not exhaustive.",
     technique="runtime monitoring: in-process reference-model monitor (RFC 7386 transcription) + diff law, ASan/UBSan",
     rule="(target, patch, source, dst) model-value tuples from a seeded generator over a 6-key alphabet (shared/unshared names at every depth, "
          "nested nulls, empty objects, arrays vs objects, non-object targets/patches); distinct = distinct tuple text; non-trivial = target or patch is a non-empty object",
     assumptions=["RFC 7386 pseudo-code transcription in drivers/c16_mergepatch.cpp is the reference", "values read back through basic_json public observers"],
     stages=[dict(name="mergepatch", driver="c16_mergepatch", flagset="asan", quick=60000, thorough=2000000)])


# additional property definitions live in vlib/propdefs/<id>.py (each module calls props.prop(...))
def _load_propdefs():
    import pkgutil
    from . import propdefs
    for m in sorted(pkgutil.iter_modules(propdefs.__path__), key=lambda x: x.name):
        importlib.import_module("vlib.propdefs." + m.name)


def stage_specs(tier):
    specs = []
    for pid, p in PROPS.items():
        for st in p["stages"]:
            if st.get("tiers") and tier not in st["tiers"]:
                continue
            if st.get("kind", "driver") == "driver":
                specs.append((st["driver"], st["flagset"], st.get("extra_flags", ""), st.get("libs", "")))
            for b in st.get("builds", []):
                specs.append(tuple(b))
    return sorted(set(specs))


def warm(tier):
    t0 = time.time()
    specs = stage_specs(tier)
    try:
        core.build_many(specs)
    except core.Inconclusive as e:
        print("warm: %s" % e)
        return 2
    core.log("warm: %d binaries ready in %.0fs" % (len(specs), time.time() - t0))
    return 0


def run(pid, tier, seed):
    if pid not in PROPS:
        print("unknown property %s" % pid)
        return 2
    p = PROPS[pid]
    run = core.Run(pid, tier, seed, level=p.get("level", "exploration"))
    run.rule = p.get("rule", "")
    run.assumptions = list(p.get("assumptions", []))
    stages = [st for st in p["stages"] if not st.get("tiers") or tier in st["tiers"]]
    # build everything this tier needs first, in parallel
    specs = []
    for st in stages:
        if st.get("kind", "driver") == "driver":
            specs.append((st["driver"], st["flagset"], st.get("extra_flags", ""), st.get("libs", "")))
        for b in st.get("builds", []):
            specs.append(tuple(b))
    bins = core.build_many(sorted(set(specs))) if specs else {}
    for st in stages:
        kind = st.get("kind", "driver")
        if kind == "driver":
            exe = bins[(st["driver"], st["flagset"])]
            n = st[tier] if tier in st else st["quick"]
            nworkers = st.get("workers_" + tier, core.NCPU)
            args = list(st.get("args", [])) + list(st.get("args_" + tier, [])) + ["--tier", tier]
            t0 = time.time()
            res = core.run_workers(exe, args, st["flagset"], seed, n, nworkers=nworkers, timeout=st.get("timeout", 7200 if tier == "thorough" else 1500),
                                   extra_env=st.get("env"))
            run.add_worker_results(res, st["name"])
            run.count("stage_wall_s.%s" % st["name"], round(time.time() - t0, 1))
        else:
            mod = importlib.import_module("vlib.monitors." + st["module"])
            t0 = time.time()
            mod.run(run, tier, seed, st, bins)
            run.count("stage_wall_s.%s" % st["name"], round(time.time() - t0, 1))
    return run.finish()


def replay(pid, path):
    with open(path) as fh:
        rp = json.load(fh)
    p = PROPS[pid]
    st = None
    for s in p["stages"]:
        if s["name"] == rp.get("stage"):
            st = s
    if st is None:
        print("replay: stage %r not found" % rp.get("stage"))
        return 2
    if st.get("kind", "driver") != "driver":
        mod = importlib.import_module("vlib.monitors." + st["module"])
        return mod.replay(rp, st)
    exe = core.build(st["driver"], st["flagset"], st.get("extra_flags", ""), st.get("libs", ""))
    case = rp.get("case")
    args = list(st.get("args", [])) + ["--tier", rp.get("tier", "quick"), "--verbose"]
    start, count = (case, 1) if case is not None and case >= 0 else (0, 1)
    res = core.run_worker(exe, args, st["flagset"], rp["seed"], start, count, 0, 1)
    hit = [v for v in res.violations if v["sig"] == rp["signature"]]
    for v in res.violations:
        print("replayed: %s %s" % (v["sig"], json.dumps(v.get("detail"))[:1500]))
    if hit:
        print("VIOLATION property=%s replay=%s" % (pid, path))
        return 1
    print("replay: signature %s did not reproduce" % rp["signature"])
    return 0


_load_propdefs()
