"""Regenerates /verif/MANIFEST.json from the property registry (python3-vt -m vlib.mkmanifest)."""
import json, os, subprocess
from . import props, core

ALL = ["C%02d" % i for i in range(1, 21)]


def pending_ids():
    f = os.path.join(core.VERIF, "vlib", "pending.txt")
    return set(open(f).read().split()) if os.path.exists(f) else set()


def main():
    try:
        hooks = subprocess.run(["git", "-C", "/repo", "log", "--format=%H %s", "--grep=^hook:"], capture_output=True, text=True).stdout.split("\n")
        hook_commits = [l.split()[0] for l in hooks if l.strip()]
    except Exception:
        hook_commits = []
    m = {
        "version": 1,
        "setup_cmd": "./check --warm quick",
        "hooks": {
            "guard": "JSONCONS_VERIF",
            "enable": "every driver is compiled by vlib/core.py:build() with -DJSONCONS_VERIF -I/repo/include (header-only library; no separate build of /repo)",
            "baseline_off_cmd": "cmake --build /repo/_build -j16 && cd /repo/_build && ctest -j8 --timeout 900",
            "source_commits": hook_commits,
            "add_only": True,
        },
        "engines": [{"name": "check", "path": "/verif/check", "serves_properties": sorted(set(props.PROPS) - pending_ids()), 
                     "kind_free_text": "runtime monitoring: seeded workload drivers compiled against /repo/include with ASan+UBSan / TSan, in-process reference-model and law monitors, recorded logs judged by Python reference models"}],
        "checks": [],
        "not_applicable": [],
        "notes": "All checks: ./check <id> --tier quick|thorough, honouring VERIF_SEED. Exit 0 held / 1 violated (VIOLATION line) / 2 inconclusive. Known findings: known_findings.json.",
    }
    # monitors present in the tree but not yet validated on the unchanged tree (seeds 1-3): not claimed
    pending = set(x.strip() for x in open(os.path.join(core.VERIF, "vlib", "pending.txt")).read().split()) if os.path.exists(os.path.join(core.VERIF, "vlib", "pending.txt")) else set()
    for pid in ALL:
        if pid in props.PROPS and pid not in pending:
            p = props.PROPS[pid]
            m["checks"].append({
                "property_id": pid,
                "quick_cmd": "./check %s --tier quick" % pid,
                "thorough_cmd": "./check %s --tier thorough" % pid,
                "evidence_file": "/verif/evidence/%s.json" % pid,
                "replay_cmd_template": "./check %s --replay {path}" % pid,
                "engine": "check",
                "level_claimed": {"category": p.get("level", "exploration"), "text": p.get("level_text", ""), "design_ref": "DESIGN.md §4 " + pid},
                "level_note": p.get("level_note", ""),
                "technique": p.get("technique", "runtime monitoring"),
            })
        else:
            m["not_applicable"].append({"property_id": pid, "reason": "monitor not built yet in this round (planned: DESIGN.md §4 %s); no claim is made" % pid})
    with open(os.path.join(core.VERIF, "MANIFEST.json"), "w") as fh:
        json.dump(m, fh, indent=1)
    print("MANIFEST.json: %d checks, %d not_applicable" % (len(m["checks"]), len(m["not_applicable"])))


if __name__ == "__main__":
    main()
