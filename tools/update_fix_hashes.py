#!/usr/bin/env python3
"""Re-derive the commit hashes recorded in known_findings.json from the subjects of the fix: commits in /repo
(needed after history in /repo is rewritten, e.g. a fixup squash). Not used at check time."""
import json, subprocess, re, sys
KEY = {
 "D1": "enlarge snprintf buffers", "D2": "handles half-float storage", "D3": "antisymmetric for number-tagged", "D4": "reserved additional information",
 "D5": "negative integers below -2^63", "D6": "ubjson encoder writes uint64", "D7": "array indices with leading zeros", "D8": "add_if_absent with the empty pointer",
 "D9": "unknown op", "D11": "minimal quote style", "D12": "copy assignment leaves the target", "D13": "flattening nested containers", "D17": "high-precision numbers that are not valid",
 "D18": "jmespath merge()", "D20": "operator>>=", "D21": "write_bytes_be", "D22": "pack_strings counts bignum", "D23": "null character", "D24": "resumes in the zero state",
 "D25": "string together with its terminator", "D26": "merge_or_update(&&) inserts", "D27": "compares doubles directly", "D29": "stops at the first error", "D30": "allocator-extended move constructor", "D32": "quotes column names in the header row", "D33": "escapes the quote escape character itself", "D34": "tab or space at the start of a record", "D36": "toon reader treats the digits", "D38": "expected_rparen when a function argument", "D39": "unbalanced closing tokens", "D40": "msgpack parser honours the mark level", "D41": "whose text is not a number as plain text",
 "D14": "json_traits for std::tuple", "D42": "reserves at most 4096", "D43": "uri::base() is not noexcept", "D44": "invalid regular expressions in JSONPath", "D45": "negates in the unsigned domain", "D52": "boolean bytes other than 0/1", "D53": "tagged mantissa is not a bignum", "D54": "unknown type marker after", "D55": "decimal point position of a number is computed in 64 bits", "D31": "builds each undo entry", "D58": "zero quotient digit", "D59": "second normalization step", "D60": "underflow were read as", "D61": "float_format fixed without a precision", "D62": "with a signed integer negate in the unsigned domain", "D63": "is a proper prefix of", "D64": "test compares objects member by member regardless of order", "D89": "cbor cursor read_to positioned on a typed array", "D106": "read_next left the white space of the last stream chunk", "D91": "decoding into std::array accepted too few or too many", "D92": "as<std::array<T,N>>() converted objects and scalars", "D93": "streaming decode of macro-described classes mishandled unknown members", "D94": "N_GETTER_SETTER_NAME_TRAITS to_json wrote null", "D95": "null polymorphic shared_ptr/unique_ptr did not round trip", "D96": "milliseconds read from a floating-point epoch_second", "D97": "nanoseconds read from a floating-point epoch value", "D98": "durations with a narrow Rep were converted to Rep before", "D99": "MessagePack timestamps of negative epoch_milli/epoch_nano", "D100": "decode_bson into a vector of a typed-array element type failed", "D101": "try_as<bool>() threw instead of returning", "D102": "non-contiguous containers of fixed-width numbers did not compile", "D90": "try_emplace returned the end iterator", "D71": "json_replace moved the new value", "D72": "jsonpath::get reported 'not found' for the root", "D73": "JSONPath ignored a quoted empty name", "D74": "expression index out of range threw", "D75": "swallowed the character following the parent operator", "D76": "$-rooted item of a union got the path", "D77": "filter expression applied to a non-array", "D78": "projections did not evaluate the right-hand side for null elements", "D79": "sort and sort_by skipped the element type check", "D80": "copy assignment from a json reference read the allocator", "D81": "max_by, min_by and sort_by dropped errors", "D82": "to_number accepted a string with trailing garbage", "D83": "pipe did not end the operators pending on its left", "D84": "function argument following a projection was evaluated", "D85": "compare of null with a json reference compared storage kinds", "D86": "multi-select list after a dot could not start with a wildcard", "D87": "parentheses did not delimit a pipe or a projection", "D88": "literal on the right-hand side of a pipe tripped", "D19": "\"not\" passes the annotations of its failed subschema", "D65": "\"contains\" records items evaluated inside an item", "D66": "const/enum/uniqueItems compare objects member by member", "D67": "reports errors at the enclosing object instead of at the member", "D68": "records properties evaluated inside a member value as evaluated properties of the object", "D69": "throw std::system_error for a big integer instance", "D70": "records a wrong index range when an already evaluated item",
}
log = subprocess.run(["git", "-C", "/repo", "log", "--format=%h\t%s"], capture_output=True, text=True).stdout.splitlines()
p = "/verif/known_findings.json"
d = json.load(open(p))
for f in d["findings"]:
    if f.get("status") != "fixed":
        continue
    k = KEY.get(f.get("id"))
    hits = [l.split("\t")[0] for l in log if k and k in l.split("\t", 1)[1]]
    if len(hits) != 1:
        print("cannot resolve", f.get("id"), hits); sys.exit(1)
    old = f["commit"]
    f["commit"] = hits[0]
    f["what"] = f["what"].replace(old, hits[0]) if len(old) >= 7 else f["what"]
json.dump(d, open(p, "w"), indent=1)
print("ok")
