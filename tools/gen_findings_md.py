#!/usr/bin/env python3
"""Regenerates the findings table in DESIGN.md (between the FINDINGS markers) from known_findings.json."""
import json, os, re
V = os.path.dirname(os.path.dirname(os.path.abspath(__file__)))
d = json.load(open(os.path.join(V, "known_findings.json")))
rows = {}
order = []
for f in d["findings"]:
    key = (f.get("id"), f["status"])
    if key not in rows:
        rows[key] = {"id": f.get("id"), "prop": f["property"], "status": f["status"], "commit": f.get("commit", ""), "sigs": [], "witness": f.get("witness", ""), "what": f["what"]}
        order.append(key)
    if f.get("signature"):
        rows[key]["sigs"].append(f["signature"])
def esc(s): return s.replace("|", "\\|").replace("\n", " ")
def num(k):
    m = re.match(r"([A-Z])(\d+)", k[0] or "Z0"); return (m.group(1), int(m.group(2)))
out = ["| id | property | status | witness | what |", "|---|---|---|---|---|"]
for key in sorted(order, key=num):
    r = rows[key]
    what = re.sub(r"^fixed: property=\S+ \S+ ", "", r["what"])
    st = ("fixed in `%s`" % r["commit"]) if r["status"] == "fixed" else ("open, %d signature%s" % (len(r["sigs"]), "" if len(r["sigs"]) == 1 else "s"))
    out.append("| %s | %s | %s | %s | %s |" % (r["id"], r["prop"], st, esc(r["witness"])[:260], esc(what)[:420]))
p = os.path.join(V, "DESIGN.md")
s = open(p).read()
a, b = "<!-- FINDINGS-BEGIN -->", "<!-- FINDINGS-END -->"
assert a in s and b in s
s = s[:s.index(a) + len(a)] + "\n" + "\n".join(out) + "\n" + s[s.index(b):]
open(p, "w").write(s)
print("findings table: %d rows" % (len(out) - 2))
