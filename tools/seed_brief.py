#!/usr/bin/env python3
"""Prints the brief given to a fresh sub-session that proposes seeded changes for one property (text of the property only)."""
import json, sys
pid = sys.argv[1]
wt = "/var/tmp/seed/" + pid
p = [json.loads(l) for l in open("/verif/properties.jsonl") if json.loads(l)["id"] == pid][0]
print(f"""You are helping to evaluate a verification effort for the header-only C++ library danielaparker/jsoncons. You get ONE semantic property of the library and your own scratch git worktree of the library at {wt} (a full checkout: include/, test/, doc/). Work ONLY inside {wt} and in a scratch directory {wt}/_seed (create it). Do not read or touch /verif or /repo, do not use the network, do not commit anything.

## The property
Title: {p['title']}
Statement: {p['statement']}
Quantifier: {p['quantifier']['text']}
Why unit tests cannot settle it: {p['why_tests_cant']}
Code anchors: {json.dumps(p['anchors']['files'])}
Mechanisms: {json.dumps(p['anchors']['mechanism'])}

## What I need from you
THREE different, realistic changes to the library headers under {wt}/include (the kind of slip a maintainer could make in a refactoring or "optimisation": an off-by-one in a boundary test, a dropped case of a switch, a wrong constant, a missing reset of state on one path, a swapped comparison, a check moved after the use, a skipped flush, an early return that forgets cleanup, a cache not invalidated...) such that each change
  1. BREAKS the property above for SOME inputs/configurations/histories,
  2. still COMPILES without warnings under the project's test flags, and
  3. still PASSES the project's existing unit tests (so it must not manifest on the handful of inputs the tests use).
Prefer changes that need something SPECIFIC to manifest - a particular length or boundary value, a rare combination of options, a particular sequence of calls, a specific chunk split, a particular nesting, a rarely used overload or format variant - over changes that break every second input; but each must be a genuine violation of the property as stated, demonstrable through the PUBLIC API only. The three changes should be in different mechanisms/files where possible and of different "sizes" (one that manifests fairly often, one that needs a boundary value, one that needs a rare combination). Keep each change small (1-10 lines).

For each change k in 1..3 produce, under {wt}/_seed/k/ :
  - patch.diff : `git -C {wt} diff -- include` with ONLY that change applied (reset the tree between changes with `git -C {wt} checkout -- include`).
  - demo.cpp : a small standalone program using only the public API that prints "PROPERTY VIOLATED: <what>" and exits 1 when built against the CHANGED headers, and prints "ok" and exits 0 when built against the UNCHANGED headers. Build with: g++ -std=gnu++17 -O1 -g -I{wt}/include demo.cpp -o demo . Run it both ways and record both outputs in demo.txt.
  - meta.json : {{"property": "{pid}", "title": "<one line>", "files": [...], "what_breaks": "<which clause of the property, for which inputs>", "needs": "<what specific input/config/history is needed to see it>", "why_tests_pass": "<why the existing tests do not notice>", "tests_run": "<which test sources you compiled and ran, and the result line>"}}

## Checking that the tests still pass
A full build of the test suite takes about half an hour, so do NOT build everything. Compile only the test sources related to the files you changed into a reduced Catch2 binary and run it from the test directory (the tests open data files relative to it):
  cd {wt}/test && g++ -std=gnu++17 -O1 -DNDEBUG -Wall -Wextra -Wcast-align -Wcast-qual -Wimplicit-fallthrough -Wsign-compare -pedantic -Wnonnull -Werror -I{wt}/include -I{wt}/test -I{wt}/test/thirdparty -I{wt}/test/thirdparty/catch corelib/src/testmain.cpp <the related *_tests.cpp files> -o {wt}/_seed/t && {wt}/_seed/t
(grep the test tree for the functions/classes you touched to pick the related test files; include every test file that mentions them; typically 3-15 files, each takes 20-60 s to compile - compile them in parallel with `&`/`wait` or xargs -P 8 into .o files and link). All of them must pass and compile warning-free with the changed headers. I will run the complete suite myself afterwards; a change that fails any existing test is useless to me, so be conservative: if in doubt, pick a change further away from what the tests pin down.

## Final answer
A short report listing the three changes (file:line, one sentence each), where the artefacts are, and for each the outputs of the demo against changed and unchanged headers and the reduced test run result. Leave the worktree with NO change applied (git -C {wt} checkout -- include) and keep {wt}/_seed.""")
