#!/usr/bin/env python3
"""Runs the checks against the confirmed seeded changes in /verif/seeded/<id>/ and records which check catches which.

  tools/run_seeded.py [--in-repo] [--tier quick] [--jobs N] [--only-missing] [id ...]

Default: each change is applied to its own scratch worktree of /repo under /var/tmp/seedrun/<id> (VERIF_REPO points the build
at it; build output and evidence go to that directory too) which is removed afterwards. --in-repo applies the patch to /repo itself
(git -C /repo apply), runs, and undoes it (git -C /repo checkout -- .) - only for use when nothing else builds from /repo.
Writes seeded/<id>/result.json and refreshes the table in DESIGN.md (between the SEEDED markers)."""
import json, os, re, shutil, subprocess, sys, time
from concurrent.futures import ThreadPoolExecutor

V = os.path.dirname(os.path.dirname(os.path.abspath(__file__)))
S = os.path.join(V, "seeded")


def sh(cmd, **kw):
    return subprocess.run(cmd, capture_output=True, text=True, errors="replace", **kw)


def run_one(sid, in_repo, tier):
    d = os.path.join(S, sid)
    meta = json.load(open(os.path.join(d, "meta.json")))
    checks = meta.get("checks") or [meta["property"]]
    patch = os.path.join(d, "patch.diff")
    res = {"id": sid, "tier": tier, "checks": {}, "when": time.strftime("%Y-%m-%d %H:%M:%S")}
    env = dict(os.environ)
    if in_repo:
        repo = "/repo"
        r = sh(["git", "-C", repo, "apply", patch])
        if r.returncode != 0:
            res["error"] = "patch does not apply: " + r.stderr[-500:]
            return res
        scratch = os.path.join("/var/tmp/seedrun", sid)
    else:
        scratch = os.path.join("/var/tmp/seedrun", sid)
        repo = os.path.join(scratch, "wt")
        shutil.rmtree(scratch, ignore_errors=True)
        os.makedirs(scratch)
        r = sh(["git", "-C", "/repo", "worktree", "add", "-q", "--detach", repo, "HEAD"])
        if r.returncode != 0:
            res["error"] = "worktree: " + r.stderr[-500:]
            return res
        r = sh(["git", "-C", repo, "apply", patch])
        if r.returncode != 0:
            res["error"] = "patch does not apply: " + r.stderr[-500:]
            sh(["git", "-C", "/repo", "worktree", "remove", "--force", repo])
            return res
        env["VERIF_REPO"] = repo
    env["VERIF_BUILD"] = os.path.join(scratch, "build")
    env["VERIF_OUT"] = os.path.join(scratch, "out")
    try:
        for c in checks:
            t0 = time.time()
            r = subprocess.run([os.path.join(V, "check"), c, "--tier", tier], capture_output=True, text=True, errors="replace", env=env, cwd=V)
            out = r.stdout + r.stderr
            sigs = [l.split("signature:", 1)[1].strip() for l in out.splitlines() if l.startswith("  signature:")]
            last = [l for l in out.splitlines() if l.startswith(("HELD", "VIOLATION", "INCONCLUSIVE", "KNOWN-FINDING"))]
            res["checks"][c] = {"exit": r.returncode, "caught": r.returncode == 1, "signatures": sorted(set(s for s in sigs if s))[:12], "wall_s": round(time.time() - t0),
                                "verdict_lines": last[-3:], "tail": out[-1500:] if r.returncode not in (0, 1) else ""}
    finally:
        if in_repo:
            sh(["git", "-C", "/repo", "checkout", "--", "."])
        else:
            sh(["git", "-C", "/repo", "worktree", "remove", "--force", repo])
        shutil.rmtree(scratch, ignore_errors=True)
    json.dump(res, open(os.path.join(d, "result.json"), "w"), indent=1)
    return res


def table():
    rows = ["| seeded change | property | what it breaks | needs | caught by (quick tier) | signatures | history |", "|---|---|---|---|---|---|---|"]
    for sid in sorted(os.listdir(S)):
        d = os.path.join(S, sid)
        if not os.path.exists(os.path.join(d, "meta.json")):
            continue
        m = json.load(open(os.path.join(d, "meta.json")))
        rp = os.path.join(d, "result.json")
        caught, sigs = "not run", ""
        if os.path.exists(rp):
            r = json.load(open(rp))
            cs = r.get("checks", {})
            caught = ", ".join("%s: %s" % (c, "**caught**" if v["caught"] else ("missed" if v["exit"] == 0 else "inconclusive")) for c, v in cs.items()) or r.get("error", "error")
            sigs = "; ".join(s for v in cs.values() for s in v["signatures"][:3])
        esc = lambda s: str(s).replace("|", "\\|").replace("\n", " ")
        rows.append("| %s | %s | %s | %s | %s | %s | %s |" % (sid, m["property"], esc(m.get("what_breaks", ""))[:220], esc(m.get("needs", ""))[:160], caught, esc(sigs)[:260], esc(m.get("history", ""))))
    p = os.path.join(V, "DESIGN.md")
    s = open(p).read()
    a, b = "<!-- SEEDED-BEGIN -->", "<!-- SEEDED-END -->"
    s = s[:s.index(a) + len(a)] + "\n" + "\n".join(rows) + "\n" + s[s.index(b):]
    open(p, "w").write(s)


def main():
    args = sys.argv[1:]
    in_repo = "--in-repo" in args
    only_missing = "--only-missing" in args
    tier = args[args.index("--tier") + 1] if "--tier" in args else "quick"
    jobs = int(args[args.index("--jobs") + 1]) if "--jobs" in args else 1
    skip = set()
    for k in ("--tier", "--jobs"):
        if k in args:
            skip.add(args.index(k) + 1)
    ids = [a for i, a in enumerate(args) if not a.startswith("--") and i not in skip]
    if not ids:
        ids = sorted(x for x in os.listdir(S) if os.path.exists(os.path.join(S, x, "patch.diff")))
    if only_missing:
        ids = [i for i in ids if not os.path.exists(os.path.join(S, i, "result.json"))]
    if in_repo:
        jobs = 1
    with ThreadPoolExecutor(max_workers=jobs) as ex:
        for r in ex.map(lambda i: run_one(i, in_repo, tier), ids):
            print(r["id"], {c: ("caught" if v["caught"] else "exit %d" % v["exit"]) for c, v in r.get("checks", {}).items()}, r.get("error", ""), flush=True)
    table()


if __name__ == "__main__":
    main()
