#!/bin/sh
# usage: tools/sweep.sh "<seeds>" [ids...]  - runs the quick tier of every claimed check for each seed, prints the verdict lines
cd "$(dirname "$0")/.."
seeds="$1"; shift
ids="$*"; [ -z "$ids" ] && ids=$(python3 -c "import json;print(' '.join(c['property_id'] for c in json.load(open('MANIFEST.json'))['checks']))")
for s in $seeds; do for p in $ids; do VERIF_SEED=$s ./check $p --tier quick 2>&1 | grep -E "^(HELD|VIOLATION|INCONCLUSIVE|KNOWN-FINDING|  signature)" | cut -c1-260 | sed "s/^/[seed $s] /"; done; done
