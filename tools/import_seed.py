#!/usr/bin/env python3
"""Copies the artefacts a seeding sub-session left in /var/tmp/seed/<P>/_seed/<k>/ into /verif/seeded/<P>-<k>/ (candidate until confirmed)."""
import json, os, shutil, sys
V = os.path.dirname(os.path.dirname(os.path.abspath(__file__)))
for arg in sys.argv[1:]:
    P, off = (arg.split(":") + ["0"])[:2]      # "C03:3" imports _seed/1..3 as C03-4..6 (second round)
    off = int(off)
    base = "/var/tmp/seed/%s/_seed" % P
    for k in sorted(os.listdir(base)):
        d = os.path.join(base, k)
        if not (os.path.isdir(d) and os.path.exists(os.path.join(d, "patch.diff"))):
            continue
        if not k.isdigit():
            continue
        out = os.path.join(V, "seeded", "%s-%d" % (P, int(k) + off))
        os.makedirs(out, exist_ok=True)
        for f in ("patch.diff", "demo.cpp", "demo.txt", "meta.json"):
            if os.path.exists(os.path.join(d, f)):
                shutil.copy(os.path.join(d, f), os.path.join(out, f))
        mp = os.path.join(out, "meta.json")
        m = json.load(open(mp)) if os.path.exists(mp) else {}
        m["property"] = P
        if off:
            m["round"] = 1 + off // 3
        m.setdefault("confirmed", {"compiles_and_suite_passes": None, "demo_fails_on_changed_passes_on_unchanged": None})
        json.dump(m, open(mp, "w"), indent=1)
        print("imported", out)
