#!/usr/bin/env python3
"""Confirms seeded changes myself, in a scratch worktree of /repo under /var/tmp/confirm (removed afterwards):
  1. each demo exits 1 ("PROPERTY VIOLATED") against the changed headers and 0 ("ok") against the unchanged ones;
  2. the complete pinned test suite builds (project flags, -Werror) and passes with the change applied. Independent changes
     (different hunks) are applied together and the suite is built once per batch; if a batch fails it is bisected.
Records the outcome in seeded/<id>/meta.json ("confirmed").   usage: tools/confirm_seeded.py [--jobs N] id ..."""
import json, os, shutil, subprocess, sys, time

V = os.path.dirname(os.path.dirname(os.path.abspath(__file__)))
S = os.path.join(V, "seeded")
W = "/var/tmp/confirm"
WT = os.path.join(W, "wt")


def sh(cmd, **kw):
    return subprocess.run(cmd, capture_output=True, text=True, errors="replace", **kw)


def demo(sid):
    d = os.path.join(S, sid)
    exe = os.path.join(W, "demo_" + sid)
    out = {}
    for label, apply in (("changed", True), ("unchanged", False)):
        sh(["git", "-C", WT, "checkout", "--", "."])
        if apply:
            r = sh(["git", "-C", WT, "apply", os.path.join(d, "patch.diff")])
            if r.returncode:
                return {"error": "patch does not apply: " + r.stderr[-300:]}
        r = sh(["g++", "-std=gnu++17", "-O1", "-g", "-I" + os.path.join(WT, "include"), os.path.join(d, "demo.cpp"), "-o", exe])
        if r.returncode:
            return {"error": "demo does not compile (%s): %s" % (label, r.stderr[-400:])}
        try:
            r = sh([exe], timeout=300, cwd=W)
            lines = r.stdout.strip().splitlines() or [""]
            viol = [l for l in lines if "PROPERTY VIOLATED" in l]
            out[label] = {"exit": r.returncode, "first_line": (viol[0] if viol else lines[0])[:300], "violation_lines": len(viol)}
        except subprocess.TimeoutExpired:
            out[label] = {"exit": "timeout", "first_line": ""}
    sh(["git", "-C", WT, "checkout", "--", "."])
    out["ok"] = out["changed"]["exit"] == 1 and out["changed"].get("violation_lines", 0) > 0 and out["unchanged"]["exit"] == 0 and out["unchanged"].get("violation_lines", 0) == 0
    return out


def suite(ids, jobs):
    sh(["git", "-C", WT, "checkout", "--", "."])
    for sid in ids:
        r = sh(["git", "-C", WT, "apply", os.path.join(S, sid, "patch.diff")])
        if r.returncode:
            return False, "patch %s does not apply on top of the others: %s" % (sid, r.stderr[-300:])
    b = os.path.join(W, "build")
    if not os.path.exists(os.path.join(b, "build.ninja")):
        r = sh(["cmake", "-G", "Ninja", "-S", WT, "-B", b, "-DCMAKE_BUILD_TYPE=RelWithDebInfo", "-DJSONCONS_BUILD_TESTS=ON", "-DCMAKE_CXX_FLAGS=-Wno-error"])
        if r.returncode:
            return False, "cmake: " + r.stderr[-500:]
    r = sh(["cmake", "--build", b, "-j", str(jobs)])
    if r.returncode:
        return False, "build failed: " + (r.stdout + r.stderr)[-1500:]
    r = sh([os.path.join(b, "test", "unit_tests")], cwd=os.path.join(WT, "test"))
    tail = [l for l in r.stdout.splitlines() if "test cases" in l or "All tests passed" in l]
    return r.returncode == 0, (tail[-1] if tail else r.stdout[-300:])


def main():
    args = sys.argv[1:]
    jobs = int(args[args.index("--jobs") + 1]) if "--jobs" in args else 8
    ids = [a for i, a in enumerate(args) if not a.startswith("--") and (i == 0 or args[i - 1] != "--jobs")]
    os.makedirs(W, exist_ok=True)
    if not os.path.exists(WT):
        r = sh(["git", "-C", "/repo", "worktree", "add", "-q", "--detach", WT, "HEAD"])
        assert r.returncode == 0, r.stderr
    else:
        sh(["git", "-C", WT, "checkout", "-q", "--detach", sh(["git", "-C", "/repo", "rev-parse", "HEAD"]).stdout.strip()])
    metas = {}
    for sid in ids:
        metas[sid] = json.load(open(os.path.join(S, sid, "meta.json")))
        metas[sid].setdefault("confirmed", {})
        dr = demo(sid)
        metas[sid]["confirmed"]["demo"] = dr
        metas[sid]["confirmed"]["demo_fails_on_changed_passes_on_unchanged"] = bool(dr.get("ok"))
        print(sid, "demo", "ok" if dr.get("ok") else dr, flush=True)

    if "--demo-only" in args:
        for sid in ids:
            json.dump(metas[sid], open(os.path.join(S, sid, "meta.json"), "w"), indent=1)
        sh(["git", "-C", "/repo", "worktree", "remove", "--force", WT])
        shutil.rmtree(W, ignore_errors=True)
        return

    def confirm(batch):
        ok, msg = suite(batch, jobs)
        print("suite with", batch, "->", ok, msg, flush=True)
        if ok or len(batch) == 1:
            for sid in batch:
                metas[sid]["confirmed"]["compiles_and_suite_passes"] = ok
                metas[sid]["confirmed"]["suite_result"] = msg[-400:] + ("" if len(batch) == 1 else " (applied together with %s)" % ", ".join(x for x in batch if x != sid))
                metas[sid]["confirmed"]["at_repo_commit"] = sh(["git", "-C", "/repo", "rev-parse", "--short", "HEAD"]).stdout.strip()
                metas[sid]["confirmed"]["when"] = time.strftime("%Y-%m-%d %H:%M:%S")
        else:
            h = len(batch) // 2
            confirm(batch[:h]); confirm(batch[h:])
    confirm(list(ids))
    for sid in ids:
        json.dump(metas[sid], open(os.path.join(S, sid, "meta.json"), "w"), indent=1)
    sh(["git", "-C", "/repo", "worktree", "remove", "--force", WT])
    shutil.rmtree(W, ignore_errors=True)


if __name__ == "__main__":
    main()
